#!/usr/bin/env python3
"""Regenerates MANIFEST.json from the table below (kept next to the rules so the claim matches what is built)."""
import json, subprocess, sys

METAS = json.loads(subprocess.check_output(['/verif/bin/annverif','metas']))
CLAIMED = {}
for k,m in METAS.items():
    note = "Trusted base: go/types, go/ssa and the VTA call graph of golang.org/x/tools v0.29.0, the annverif engines, and the slot tables in tool/rules/%s.go (each entry confirmed by reading). Assumptions: %s" % (k.lower(), "; ".join(m.get("Assume") or ["none beyond the trusted base"]))
    CLAIMED[k] = (m["Level"], m["Technique"], m["Explain"], note)

PENDING_REASON = "rule set designed (DESIGN.md section 4) but not yet built in this tree; not claimed until it is armed, silent or triaged on the pinned tree, and mutation-tested"

def main():
    props = [json.loads(l) for l in open('/verif/properties.jsonl')]
    checks, na = [], []
    for p in props:
        i = p['id']
        if i in CLAIMED:
            cat, tech, text, note = CLAIMED[i]
            checks.append({
                "property_id": i,
                "quick_cmd": f"bin/annverif check -property {i} -tier quick",
                "thorough_cmd": f"bin/annverif check -property {i} -tier thorough",
                "evidence_file": f"/verif/evidence/{i}.json",
                "replay_cmd_template": "bin/annverif explain {path}",
                "engine": "annverif",
                "level_claimed": {"category": cat, "text": text, "design_ref": f"DESIGN.md section 4, {i}"},
                "level_note": note,
                "technique": tech,
            })
        else:
            na.append({"property_id": i, "reason": NA.get(i, PENDING_REASON)})
    m = {
        "version": 1,
        "setup_cmd": "cd /verif/tool && GOFLAGS=-mod=mod GOPROXY=off GOSUMDB=off GOTOOLCHAIN=local GOWORK=off go build -o /verif/bin/annverif ./cmd/annverif",
        "hooks": {"guard": "verif", "enable": "none needed: static analysis reads /repo's source; no instrumentation is compiled in", "baseline_off_cmd": BASELINE, "source_commits": [], "add_only": True},
        "engines": [{"name": "annverif", "path": "/verif/tool", "serves_properties": sorted(CLAIMED), "kind_free_text": "repository-specific static analyser on go/packages + go/ssa + VTA call graph: dominance/edge-dominance rules, who-may-call/write tables, finite-domain decision tables, lockset, taint, translation validation against go-ethereum v1.8.27"}],
        "checks": checks,
        "not_applicable": na,
        "notes": "All checks are static: they load /repo's current working tree with go/packages on every run and never execute AnnChain code. Exit 2 = no verdict (load/type error, analyser panic). Known findings (genuine defects recorded, not repaired) and the fixed: entries are in /verif/known_findings.json; the checks print KNOWN-FINDING lines for status=known entries only. Checker QA (not part of any verdict): /verif/mutants (inverse of every fix commit, hand-written catalogue, behaviour-preserving refactors that must stay silent) and /verif/seeded (199 breaking changes produced by independent sub-agents and confirmed), replayed through the loader overlay by the thorough tier and by `bin/annverif selftest`.",
    }
    json.dump(m, open('/verif/MANIFEST.json', 'w'), indent=1)
    print("claimed", len(checks), "not_applicable", len(na))

NA = {}
BASELINE = json.load(open('/root/.vp/BASELINE.json'))['cmd']
main()
