#!/bin/bash
# usage: seedtest.sh <patch.diff> <property>...   — apply a seeded change to /repo, run the checks, undo.
set -u
patch=$1; shift
cd /repo
if ! git diff --quiet; then echo "repo dirty"; exit 3; fi
if ! git apply --check "$patch" 2>/dev/null; then echo "PATCH DOES NOT APPLY: $patch"; exit 4; fi
git apply "$patch"
cd /verif
rc=0
ps=$(IFS=,; echo "$*")
for p in $ps; do
  VERIF_DIR=/tmp/seedverif bin/annverif check -property $p > /tmp/seedtest.out 2>&1; r=$?
  echo "== $p exit=$r"; grep -A1 "^VIOLATION" /tmp/seedtest.out | grep -v "^VIOLATION\|^--" | cut -c1-260 | head -8
  [ $r -ne 0 ] && rc=1
done
git -C /repo checkout -q -- .
exit $rc
