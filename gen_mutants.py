#!/usr/bin/env python3
"""Builds mutants/index.json: the registered breaking changes the checks must report (checker QA).
 - mutants/regress/<commit>.diff : inverse of each 'fix:' commit of /repo (properties from known_findings.json)
 - seeded/<id>/patch.diff        : changes produced by independent sub-agents and confirmed (meta.json)"""
import json, os, glob
V = os.path.dirname(os.path.abspath(__file__))
out = []
kf = json.load(open(os.path.join(V, "known_findings.json")))
by = {}
for f in kf["findings"]:
    if f.get("status") == "fixed":
        by.setdefault(f["commit"], {"props": set(), "what": f["what"]})["props"].add(f["property"])
for c, d in sorted(by.items()):
    p = f"mutants/regress/{c}.diff"
    if os.path.exists(os.path.join(V, p)):
        out.append({"id": "revert-" + c, "patch": p, "properties": sorted(d["props"]), "what": "inverse of fix commit %s: %s" % (c, d["what"][:200])})
for m in sorted(glob.glob(os.path.join(V, "seeded", "*", "meta.json"))):
    d = os.path.dirname(m)
    meta = json.load(open(m))
    if not os.path.exists(os.path.join(d, "patch.diff")):
        continue
    props = meta.get("detected_by_properties") or [meta["property"]]
    out.append({"id": "seeded-" + os.path.basename(d), "patch": os.path.relpath(os.path.join(d, "patch.diff"), V), "properties": sorted(set(props)), "what": meta.get("summary", "")[:240]})
# hand-written catalogue (DESIGN §10), crafted as compiling patches by a sub-agent from the descriptions
GAPS = {"C12-03": "lock re-acquisition reached only through an interface call with several possible targets; lock-order edges follow precise callees only (DESIGN §11.2, §15)"}
REMAP = {"C10-05": "C11"}
import csv
idx = os.path.join(V, "mutants", "catalogue", "index.tsv")
if os.path.exists(idx):
    for row in csv.reader(open(idx), delimiter="\t"):
        if len(row) < 3: continue
        mid = row[0]
        pf = os.path.join("mutants", "catalogue", mid + ".diff")
        if not os.path.exists(os.path.join(V, pf)): continue
        m = {"id": "catalogue-" + mid, "patch": pf, "properties": [REMAP.get(mid, mid.split("-")[0])], "what": row[2][:240]}
        if mid in GAPS: m["known_gap"] = GAPS[mid]
        out.append(m)
for f in sorted(glob.glob(os.path.join(V, "mutants", "benign", "*.diff"))):
    out.append({"id": "benign-" + os.path.basename(f)[:-5], "patch": os.path.relpath(f, V), "properties": [os.path.basename(f)[:3].upper()], "expect": "silent",
                "what": "behaviour-preserving refactor: the check must stay silent"})
json.dump(out, open(os.path.join(V, "mutants", "index.json"), "w"), indent=1)
print(len(out), "mutants")
