#!/usr/bin/env python3
"""Builds mutants/index.json: the registered breaking changes the checks must report (checker QA).
 - mutants/regress/<commit>.diff : inverse of each 'fix:' commit of /repo (properties from known_findings.json)
 - seeded/<id>/patch.diff        : changes produced by independent sub-agents and confirmed (meta.json)"""
import json, os, glob
V = os.path.dirname(os.path.abspath(__file__))
out = []
kf = json.load(open(os.path.join(V, "known_findings.json")))
by = {}
for f in kf["findings"]:
    if f.get("status") == "fixed":
        by.setdefault(f["commit"], {"props": set(), "what": f["what"]})["props"].add(f["property"])
for c, d in sorted(by.items()):
    p = f"mutants/regress/{c}.diff"
    if os.path.exists(os.path.join(V, p)):
        out.append({"id": "revert-" + c, "patch": p, "properties": sorted(d["props"]), "what": "inverse of fix commit %s: %s" % (c, d["what"][:200])})
for m in sorted(glob.glob(os.path.join(V, "seeded", "*", "meta.json"))):
    d = os.path.dirname(m)
    meta = json.load(open(m))
    if not os.path.exists(os.path.join(d, "patch.diff")):
        continue
    props = meta.get("detected_by_properties") or [meta["property"]]
    out.append({"id": "seeded-" + os.path.basename(d), "patch": os.path.relpath(os.path.join(d, "patch.diff"), V), "properties": sorted(set(props)), "what": meta.get("summary", "")[:240]})
json.dump(out, open(os.path.join(V, "mutants", "index.json"), "w"), indent=1)
print(len(out), "mutants")
