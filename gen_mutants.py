#!/usr/bin/env python3
"""Builds mutants/index.json: the registered breaking changes the checks must report (checker QA).
 - mutants/regress/<commit>.diff : inverse of each 'fix:' commit of /repo (properties from known_findings.json)
 - seeded/<id>/patch.diff        : changes produced by independent sub-agents and confirmed (meta.json)"""
import json, os, glob
V = os.path.dirname(os.path.abspath(__file__))
out = []
kf = json.load(open(os.path.join(V, "known_findings.json")))
by = {}
for f in kf["findings"]:
    if f.get("status") == "fixed":
        by.setdefault(f["commit"], {"props": set(), "what": f["what"]})["props"].add(f["property"])
for c, d in sorted(by.items()):
    p = f"mutants/regress/{c}.diff"
    if os.path.exists(os.path.join(V, p)):
        out.append({"id": "revert-" + c, "patch": p, "properties": sorted(d["props"]), "what": "inverse of fix commit %s: %s" % (c, d["what"][:200])})
for m in sorted(glob.glob(os.path.join(V, "seeded", "*", "meta.json"))):
    d = os.path.dirname(m)
    meta = json.load(open(m))
    if not os.path.exists(os.path.join(d, "patch.diff")):
        continue
    props = [meta["property"]]  # the check of the property the change was written against (cross-property detection is in seeded/INDEX.md)
    out.append({"id": "seeded-" + os.path.basename(d), "patch": os.path.relpath(os.path.join(d, "patch.diff"), V), "properties": sorted(set(props)), "what": meta.get("summary", "")[:240]})
# hand-written catalogue (DESIGN §10), crafted as compiling patches by a sub-agent from the descriptions
GAPS = {"C12-03": "lock re-acquisition reached only through an interface call with several possible targets; lock-order edges follow precise callees only (DESIGN §11.2, §15)"}
REMAP = {"C10-05": "C11"}
import csv
idx = os.path.join(V, "mutants", "catalogue", "index.tsv")
if os.path.exists(idx):
    for row in csv.reader(open(idx), delimiter="\t"):
        if len(row) < 3: continue
        mid = row[0]
        pf = os.path.join("mutants", "catalogue", mid + ".diff")
        if not os.path.exists(os.path.join(V, pf)): continue
        m = {"id": "catalogue-" + mid, "patch": pf, "properties": [REMAP.get(mid, mid.split("-")[0])], "what": row[2][:240]}
        if mid in GAPS: m["known_gap"] = GAPS[mid]
        out.append(m)
# behaviour-preserving refactors (mutants/benign): the checks of the properties anchored in the touched code must stay silent
GROUP = {"01": ["C03", "C07"], "02": ["C01", "C02", "C15"], "03": ["C01", "C02", "C13", "C14", "C15", "C16"], "04": ["C17", "C08"],
         "05": ["C02", "C01"], "06": ["C04", "C02", "C12"], "07": ["C04", "C01", "C12", "C17", "C07", "C06", "C08"], "08": ["C08", "C15"],
         "09": ["C07"], "10": ["C06", "C13", "C08"], "11": ["C06", "C14", "C16", "C02"], "12": ["C06", "C13", "C20"], "13": ["C14", "C01"],
         "14": ["C20", "C08"], "15": ["C18", "C08"], "16": ["C05", "C09", "C06"], "17": ["C19"], "18": ["C08", "C16"]}
# extract-method refactors that move an anchored effect (not a predicate) into a new helper: the rules do not
# follow the effect into the helper and report the obligation as not provable (DESIGN.md section 15)
EXTRACT = "documented false alarm: the anchored effect was moved into a new helper method; the rule does not inline helpers that carry effects (DESIGN.md section 15)"
KNOWN_FALSE_ALARMS = {"d-a2-01-voteset-record-first-maj23": EXTRACT, "d-a2-02-heightvoteset-add-catchup-round": EXTRACT,
                      "d-a2-03-state-addvote-unlock-if-pol": EXTRACT, "d-a2-07-privvalidator-save-signed": EXTRACT}
for f in sorted(glob.glob(os.path.join(V, "mutants", "benign", "*.diff"))):
    b = os.path.basename(f)[:-5]
    parts = b.split("-")
    if b.startswith("c17-extract"):
        props = ["C17", "C08"]
    elif b.startswith("b") and len(parts) > 2:
        props = GROUP.get(parts[1], ["all"])
    else:
        props = ["all"]  # second batch: every property's rules, in `selftest` only
    m = {"id": "benign-" + b, "patch": os.path.relpath(f, V), "properties": props, "expect": "silent",
         "what": "behaviour-preserving refactor: the check must stay silent"}
    if b in KNOWN_FALSE_ALARMS:
        m["known_gap"] = KNOWN_FALSE_ALARMS[b]
    out.append(m)
json.dump(out, open(os.path.join(V, "mutants", "index.json"), "w"), indent=1)
print(len(out), "mutants")
