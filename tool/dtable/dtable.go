// Package dtable: E7 — decision-table extraction over finite ordering domains, and a small integer
// predicate evaluator for quorum thresholds. Abstract interpretation over a finite domain; no solver.
package dtable

import (
	"fmt"
	"go/constant"
	"go/token"
	"sort"
	"strings"

	"golang.org/x/tools/go/ssa"

	"annverif/cfgx"
)

// Atom kinds
const (
	Cmp  = iota // X ? Y  with values LT, EQ, GT
	Nil         // X == nil with values NIL, NONNIL
	Bool        // boolean expression with values F, T
)

const (
	LT = 0
	EQ = 1
	GT = 2

	NIL    = 0
	NONNIL = 1

	F = 0
	T = 1
)

type Atom struct {
	Name string
	Kind int
	X, Y string // rendered operand expressions (Y unused for Nil/Bool)
}

func (a Atom) card() int {
	if a.Kind == Cmp {
		return 3
	}
	return 2
}

func (a Atom) ValName(v int) string {
	switch a.Kind {
	case Cmp:
		return [...]string{"LT", "EQ", "GT"}[v]
	case Nil:
		return [...]string{"NIL", "NONNIL"}[v]
	}
	return [...]string{"F", "T"}[v]
}

type State map[string]int

// evalCond evaluates an SSA condition under the state; ok=false if the condition is not over atoms.
func evalCond(c ssa.Value, atoms []Atom, st State) (val bool, ok bool) {
	if u, isU := c.(*ssa.UnOp); isU && u.Op == token.NOT {
		v, ok := evalCond(u.X, atoms, st)
		return !v, ok
	}
	if b, isB := c.(*ssa.BinOp); isB {
		x, y := cfgx.Expr(b.X), cfgx.Expr(b.Y)
		for _, a := range atoms {
			switch a.Kind {
			case Cmp:
				ord, match := 0, false
				if x == a.X && y == a.Y {
					ord, match = st[a.Name], true
				} else if x == a.Y && y == a.X {
					ord, match = 2-st[a.Name], true
				}
				if !match {
					continue
				}
				switch b.Op {
				case token.LSS:
					return ord == LT, true
				case token.LEQ:
					return ord != GT, true
				case token.GTR:
					return ord == GT, true
				case token.GEQ:
					return ord != LT, true
				case token.EQL:
					return ord == EQ, true
				case token.NEQ:
					return ord != EQ, true
				}
			case Nil:
				var other string
				if x == a.X {
					other = y
				} else if y == a.X {
					other = x
				} else {
					continue
				}
				if other != "nil" {
					continue
				}
				switch b.Op {
				case token.EQL:
					return st[a.Name] == NIL, true
				case token.NEQ:
					return st[a.Name] == NONNIL, true
				}
			}
		}
		return false, false
	}
	s := cfgx.Expr(c)
	for _, a := range atoms {
		if a.Kind == Bool && a.X == s {
			return st[a.Name] == T, true
		}
	}
	return false, false
}

// Spec of an extraction.
type Spec struct {
	Fn    *cfgx.Fn
	Atoms []Atom
	// Event maps an instruction to an event label ("" = not an event). Returns and no-return
	// calls are always events ("return:<classes>" / "noreturn:<callee>").
	Event func(ins ssa.Instruction) string
	// RetClass classifies a returned value (default: nil / const / expr).
	RetClass func(v ssa.Value) string
	// StopAfter: stop following a path after this event label prefix was seen (keeps tables small).
	StopAfter func(label string) bool
	MaxPaths  int
}

// Row: one abstract state and the set of distinct event sequences feasible under it.
type Row struct {
	State    State
	Outcomes []string
	Forks    int // number of undecidable branches met (0 = the table cell is exact)
}

type Table struct {
	Atoms []Atom
	Rows  []Row
	Paths int
}

func (t *Table) StateString(st State) string {
	var parts []string
	for _, a := range t.Atoms {
		parts = append(parts, a.Name+"="+a.ValName(st[a.Name]))
	}
	return strings.Join(parts, ",")
}

// Extract enumerates all abstract states and interprets the function's CFG under each.
func Extract(sp Spec) (*Table, error) {
	if sp.MaxPaths == 0 {
		sp.MaxPaths = 20000
	}
	t := &Table{Atoms: sp.Atoms}
	n := len(sp.Atoms)
	idx := make([]int, n)
	for {
		st := State{}
		for i, a := range sp.Atoms {
			st[a.Name] = idx[i]
		}
		row, paths, err := interpret(sp, st)
		if err != nil {
			return nil, err
		}
		t.Paths += paths
		t.Rows = append(t.Rows, row)
		// next
		k := n - 1
		for k >= 0 {
			idx[k]++
			if idx[k] < sp.Atoms[k].card() {
				break
			}
			idx[k] = 0
			k--
		}
		if k < 0 {
			break
		}
	}
	return t, nil
}

func interpret(sp Spec, st State) (Row, int, error) {
	f := sp.Fn
	outs := map[string]bool{}
	paths := 0
	forks := 0
	var err error
	var walk func(b int, visited map[int]bool, evs []string)
	walk = func(b int, visited map[int]bool, evs []string) {
		if err != nil {
			return
		}
		if visited[b] {
			paths++
			outs[strings.Join(append(evs, "loop"), " → ")] = true
			return
		}
		visited[b] = true
		defer delete(visited, b)
		blk := f.F.Blocks[b]
		for _, ins := range blk.Instrs {
			if f.NR != nil && f.NR.IsNoRetCall(ins) {
				c := ins.(*ssa.Call)
				evs = append(evs, "noreturn:"+cfgx.CalleeName(c))
				paths++
				outs[strings.Join(evs, " → ")] = true
				return
			}
			switch x := ins.(type) {
			case *ssa.Return:
				var cl []string
				for _, r := range x.Results {
					cl = append(cl, retClass(sp, r))
				}
				evs = append(evs, "return:"+strings.Join(cl, ","))
				paths++
				if paths > sp.MaxPaths {
					err = fmt.Errorf("more than %d paths", sp.MaxPaths)
				}
				outs[strings.Join(evs, " → ")] = true
				return
			case *ssa.Panic:
				evs = append(evs, "panic")
				paths++
				outs[strings.Join(evs, " → ")] = true
				return
			case *ssa.If:
				v, ok := evalCond(x.Cond, sp.Atoms, st)
				if ok {
					if v {
						walk(blk.Succs[0].Index, visited, evs)
					} else {
						walk(blk.Succs[1].Index, visited, evs)
					}
				} else {
					forks++
					e2 := append([]string{}, evs...)
					walk(blk.Succs[0].Index, visited, evs)
					walk(blk.Succs[1].Index, visited, e2)
				}
				return
			case *ssa.Jump:
				walk(blk.Succs[0].Index, visited, evs)
				return
			default:
				if sp.Event != nil {
					if l := sp.Event(ins); l != "" {
						evs = append(append([]string{}, evs...), l)
						if sp.StopAfter != nil && sp.StopAfter(l) {
							paths++
							outs[strings.Join(evs, " → ")] = true
							return
						}
					}
				}
			}
		}
	}
	walk(0, map[int]bool{}, nil)
	row := Row{State: st, Forks: forks}
	for o := range outs {
		row.Outcomes = append(row.Outcomes, o)
	}
	sort.Strings(row.Outcomes)
	return row, paths, err
}

func retClass(sp Spec, v ssa.Value) string {
	if sp.RetClass != nil {
		return sp.RetClass(v)
	}
	if c, ok := v.(*ssa.Const); ok {
		if c.Value == nil {
			return "nil"
		}
		return "const(" + c.Value.ExactString() + ")"
	}
	return cfgx.Expr(v)
}

// ---------------------------------------------------------------------------------------------
// Integer predicate evaluator (quorum thresholds)

// Env binds rendered leaf expressions to integers.
type Env map[string]int64

// EvalInt evaluates an SSA integer expression tree over +,-,*,/ and leaves bound in env.
// The rendered form of every sub-expression is tried against env first (so that a call such as
// TotalVotingPower() can be a leaf).
func EvalInt(v ssa.Value, env Env) (int64, error) {
	if x, ok := env[cfgx.Expr(v)]; ok {
		return x, nil
	}
	switch e := v.(type) {
	case *ssa.Const:
		if e.Value != nil && e.Value.Kind() == constant.Int {
			i, ok := constant.Int64Val(e.Value)
			if ok {
				return i, nil
			}
		}
		return 0, fmt.Errorf("non-integer constant %s", cfgx.Expr(v))
	case *ssa.Convert:
		return EvalInt(e.X, env)
	case *ssa.ChangeType:
		return EvalInt(e.X, env)
	case *ssa.BinOp:
		x, err := EvalInt(e.X, env)
		if err != nil {
			return 0, err
		}
		y, err := EvalInt(e.Y, env)
		if err != nil {
			return 0, err
		}
		switch e.Op {
		case token.ADD:
			return x + y, nil
		case token.SUB:
			return x - y, nil
		case token.MUL:
			return x * y, nil
		case token.QUO:
			if y == 0 {
				return 0, fmt.Errorf("division by zero")
			}
			return x / y, nil
		}
		return 0, fmt.Errorf("unsupported operator %s in %s", e.Op, cfgx.Expr(v))
	case *ssa.Phi:
		return 0, fmt.Errorf("phi in threshold expression %s", cfgx.Expr(v))
	}
	return 0, fmt.Errorf("unsupported operand %s (%T)", cfgx.Expr(v), v)
}

// EvalBool evaluates a comparison (or !comparison) whose operands are integer expressions.
func EvalBool(v ssa.Value, env Env) (bool, error) {
	if u, ok := v.(*ssa.UnOp); ok && u.Op == token.NOT {
		b, err := EvalBool(u.X, env)
		return !b, err
	}
	b, ok := v.(*ssa.BinOp)
	if !ok {
		return false, fmt.Errorf("not a comparison: %s", cfgx.Expr(v))
	}
	x, err := EvalInt(b.X, env)
	if err != nil {
		return false, err
	}
	y, err := EvalInt(b.Y, env)
	if err != nil {
		return false, err
	}
	switch b.Op {
	case token.LSS:
		return x < y, nil
	case token.LEQ:
		return x <= y, nil
	case token.GTR:
		return x > y, nil
	case token.GEQ:
		return x >= y, nil
	case token.EQL:
		return x == y, nil
	case token.NEQ:
		return x != y, nil
	}
	return false, fmt.Errorf("unsupported comparison %s", b.Op)
}
