// Package dtable: E7 — decision-table extraction over finite ordering domains, and a small integer
// predicate evaluator for quorum thresholds. Abstract interpretation over a finite domain; no solver.
package dtable

import (
	"fmt"
	"go/constant"
	"go/token"
	"go/types"
	"os"
	"regexp"
	"sort"
	"strconv"
	"strings"

	"golang.org/x/tools/go/ssa"

	"annverif/cfgx"
)

// Atom kinds
const (
	Cmp  = iota // X ? Y  with values LT, EQ, GT
	Nil         // X == nil with values NIL, NONNIL
	Bool        // boolean expression with values F, T
)

const (
	LT = 0
	EQ = 1
	GT = 2

	NIL    = 0
	NONNIL = 1

	F = 0
	T = 1
)

type Atom struct {
	Name string
	Kind int
	X, Y string // rendered operand expressions (Y unused for Nil/Bool)
}

func (a Atom) card() int {
	if a.Kind == Cmp {
		return 3
	}
	return 2
}

func (a Atom) ValName(v int) string {
	switch a.Kind {
	case Cmp:
		return [...]string{"LT", "EQ", "GT"}[v]
	case Nil:
		return [...]string{"NIL", "NONNIL"}[v]
	}
	return [...]string{"F", "T"}[v]
}

type State map[string]int

// evalCond evaluates an SSA condition under the state; ok=false if the condition is not over atoms.
func evalCond(c ssa.Value, atoms []Atom, st State) (val bool, ok bool) {
	return evalCondSub(c, atoms, st, nil, 0)
}

var reParamTok = regexp.MustCompile(`\ba([0-9]+)\b`)

// evalCondSub: like evalCond, with the callee's parameters replaced by the caller's argument expressions
// (args != nil when evaluating inside an extracted predicate helper).
func evalCondSub(c ssa.Value, atoms []Atom, st State, args []string, depth int) (val bool, ok bool) {
	render := func(v ssa.Value) string {
		s := cfgx.Expr(v)
		if args == nil {
			return s
		}
		return reParamTok.ReplaceAllStringFunc(s, func(m string) string {
			i, _ := strconv.Atoi(m[1:])
			if i < len(args) {
				return args[i]
			}
			return m
		})
	}
	if u, isU := c.(*ssa.UnOp); isU && u.Op == token.NOT {
		v, ok := evalCondSub(u.X, atoms, st, args, depth)
		return !v, ok
	}
	if k, isK := c.(*ssa.Const); isK && k.Value != nil && k.Value.Kind() == constant.Bool {
		return constant.BoolVal(k.Value), true
	}
	if call, isCall := c.(*ssa.Call); isCall && depth < 2 {
		if callee := call.Call.StaticCallee(); callee != nil && !call.Call.IsInvoke() && IsPurePredicate(callee) {
			sub := make([]string, len(call.Call.Args))
			for i, a := range call.Call.Args {
				sub[i] = render(a)
			}
			v, ok := evalPredicate(callee, atoms, st, sub, depth+1)
			if os.Getenv("ANNVERIF_DTDEBUG") != "" {
				fmt.Fprintf(os.Stderr, "dtable: predicate %s(%v) under %v -> %v ok=%v\n", callee.Name(), sub, st, v, ok)
			}
			if ok {
				return v, true
			}
		}
	}
	if b, isB := c.(*ssa.BinOp); isB {
		x, y := render(b.X), render(b.Y)
		for _, a := range atoms {
			switch a.Kind {
			case Cmp:
				ord, match := 0, false
				if x == a.X && y == a.Y {
					ord, match = st[a.Name], true
				} else if x == a.Y && y == a.X {
					ord, match = 2-st[a.Name], true
				}
				if !match {
					continue
				}
				switch b.Op {
				case token.LSS:
					return ord == LT, true
				case token.LEQ:
					return ord != GT, true
				case token.GTR:
					return ord == GT, true
				case token.GEQ:
					return ord != LT, true
				case token.EQL:
					return ord == EQ, true
				case token.NEQ:
					return ord != EQ, true
				}
			case Nil:
				var other string
				if x == a.X {
					other = y
				} else if y == a.X {
					other = x
				} else {
					continue
				}
				if other != "nil" {
					continue
				}
				switch b.Op {
				case token.EQL:
					return st[a.Name] == NIL, true
				case token.NEQ:
					return st[a.Name] == NONNIL, true
				}
			}
		}
		return false, false
	}
	s := render(c)
	for _, a := range atoms {
		if a.Kind == Bool && a.X == s {
			return st[a.Name] == T, true
		}
	}
	return false, false
}

// isPurePredicate: a small bool function of the repository without stores, sends, defers or panics
// (an extracted condition).
func IsPurePredicate(fn *ssa.Function) bool {
	if fn.Blocks == nil || len(fn.Blocks) > 12 || fn.Recover != nil {
		return false
	}
	res := fn.Signature.Results()
	if res.Len() != 1 {
		return false
	}
	if b, ok := res.At(0).Type().Underlying().(*types.Basic); !ok || b.Kind() != types.Bool {
		return false
	}
	for _, b := range fn.Blocks {
		for _, ins := range b.Instrs {
			switch x := ins.(type) {
			case *ssa.Store:
				// spilling a by-value parameter into its own local is not an effect
				if _, isAlloc := x.Addr.(*ssa.Alloc); !isAlloc {
					return false
				}
			case *ssa.MapUpdate, *ssa.Send, *ssa.Go, *ssa.Defer, *ssa.Panic, *ssa.Select:
				return false
			}
		}
	}
	return true
}

// evalPredicate interprets the helper's CFG under the abstract state; ok=false when some branch in it is
// not decided by the atoms.
func evalPredicate(fn *ssa.Function, atoms []Atom, st State, args []string, depth int) (bool, bool) {
	cur := fn.Blocks[0]
	path := []*ssa.BasicBlock{cur}
	// resolve (possibly nested) phis along the path actually taken
	var resolve func(v ssa.Value) (ssa.Value, bool)
	resolve = func(v ssa.Value) (ssa.Value, bool) {
		phi, isPhi := v.(*ssa.Phi)
		if !isPhi {
			return v, true
		}
		for i := len(path) - 1; i > 0; i-- {
			if path[i] == phi.Block() {
				for k, p := range phi.Block().Preds {
					if p == path[i-1] {
						return resolve(phi.Edges[k])
					}
				}
			}
		}
		return nil, false
	}
	for steps := 0; steps < 64; steps++ {
		last := cur.Instrs[len(cur.Instrs)-1]
		switch x := last.(type) {
		case *ssa.If:
			c, ok := resolve(x.Cond)
			if !ok {
				return false, false
			}
			v, ok := evalCondSub(c, atoms, st, args, depth)
			if !ok {
				return false, false
			}
			if v {
				cur = cur.Succs[0]
			} else {
				cur = cur.Succs[1]
			}
			path = append(path, cur)
		case *ssa.Jump:
			cur = cur.Succs[0]
			path = append(path, cur)
		case *ssa.Return:
			if len(x.Results) != 1 {
				return false, false
			}
			r, ok := resolve(x.Results[0])
			if !ok {
				return false, false
			}
			return evalCondSub(r, atoms, st, args, depth)
		default:
			return false, false
		}
	}
	return false, false
}

// Spec of an extraction.
type Spec struct {
	Fn    *cfgx.Fn
	Atoms []Atom
	// Event maps an instruction to an event label ("" = not an event). Returns and no-return
	// calls are always events ("return:<classes>" / "noreturn:<callee>").
	Event func(ins ssa.Instruction) string
	// RetClass classifies a returned value (default: nil / const / expr).
	RetClass func(v ssa.Value) string
	// StopAfter: stop following a path after this event label prefix was seen (keeps tables small).
	StopAfter func(label string) bool
	MaxPaths  int
}

// Row: one abstract state and the set of distinct event sequences feasible under it.
type Row struct {
	State    State
	Outcomes []string
	Forks    int // number of undecidable branches met (0 = the table cell is exact)
}

type Table struct {
	Atoms []Atom
	Rows  []Row
	Paths int
}

func (t *Table) StateString(st State) string {
	var parts []string
	for _, a := range t.Atoms {
		parts = append(parts, a.Name+"="+a.ValName(st[a.Name]))
	}
	return strings.Join(parts, ",")
}

// Extract enumerates all abstract states and interprets the function's CFG under each.
func Extract(sp Spec) (*Table, error) {
	if sp.MaxPaths == 0 {
		sp.MaxPaths = 20000
	}
	t := &Table{Atoms: sp.Atoms}
	n := len(sp.Atoms)
	idx := make([]int, n)
	for {
		st := State{}
		for i, a := range sp.Atoms {
			st[a.Name] = idx[i]
		}
		row, paths, err := interpret(sp, st)
		if err != nil {
			return nil, err
		}
		t.Paths += paths
		t.Rows = append(t.Rows, row)
		// next
		k := n - 1
		for k >= 0 {
			idx[k]++
			if idx[k] < sp.Atoms[k].card() {
				break
			}
			idx[k] = 0
			k--
		}
		if k < 0 {
			break
		}
	}
	return t, nil
}

func interpret(sp Spec, st State) (Row, int, error) {
	f := sp.Fn
	outs := map[string]bool{}
	paths := 0
	forks := 0
	var err error
	var walk func(b int, visited map[int]bool, evs []string)
	walk = func(b int, visited map[int]bool, evs []string) {
		if err != nil {
			return
		}
		if visited[b] {
			paths++
			outs[strings.Join(append(evs, "loop"), " → ")] = true
			return
		}
		visited[b] = true
		defer delete(visited, b)
		blk := f.F.Blocks[b]
		for _, ins := range blk.Instrs {
			if f.NR != nil && f.NR.IsNoRetCall(ins) {
				c := ins.(*ssa.Call)
				evs = append(evs, "noreturn:"+cfgx.CalleeName(c))
				paths++
				outs[strings.Join(evs, " → ")] = true
				return
			}
			switch x := ins.(type) {
			case *ssa.Return:
				var cl []string
				for _, r := range x.Results {
					cl = append(cl, retClass(sp, r))
				}
				evs = append(evs, "return:"+strings.Join(cl, ","))
				paths++
				if paths > sp.MaxPaths {
					err = fmt.Errorf("more than %d paths", sp.MaxPaths)
				}
				outs[strings.Join(evs, " → ")] = true
				return
			case *ssa.Panic:
				evs = append(evs, "panic")
				paths++
				outs[strings.Join(evs, " → ")] = true
				return
			case *ssa.If:
				v, ok := evalCond(x.Cond, sp.Atoms, st)
				if ok {
					if v {
						walk(blk.Succs[0].Index, visited, evs)
					} else {
						walk(blk.Succs[1].Index, visited, evs)
					}
				} else {
					forks++
					e2 := append([]string{}, evs...)
					walk(blk.Succs[0].Index, visited, evs)
					walk(blk.Succs[1].Index, visited, e2)
				}
				return
			case *ssa.Jump:
				walk(blk.Succs[0].Index, visited, evs)
				return
			default:
				if sp.Event != nil {
					if l := sp.Event(ins); l != "" {
						evs = append(append([]string{}, evs...), l)
						if sp.StopAfter != nil && sp.StopAfter(l) {
							paths++
							outs[strings.Join(evs, " → ")] = true
							return
						}
					}
				}
			}
		}
	}
	walk(0, map[int]bool{}, nil)
	row := Row{State: st, Forks: forks}
	for o := range outs {
		row.Outcomes = append(row.Outcomes, o)
	}
	sort.Strings(row.Outcomes)
	return row, paths, err
}

func retClass(sp Spec, v ssa.Value) string {
	if sp.RetClass != nil {
		return sp.RetClass(v)
	}
	if c, ok := v.(*ssa.Const); ok {
		if c.Value == nil {
			return "nil"
		}
		return "const(" + c.Value.ExactString() + ")"
	}
	return cfgx.Expr(v)
}

// ---------------------------------------------------------------------------------------------
// Integer predicate evaluator (quorum thresholds)

// Env binds rendered leaf expressions to integers.
type Env map[string]int64

// EvalInt evaluates an SSA integer expression tree over +,-,*,/ and leaves bound in env.
// The rendered form of every sub-expression is tried against env first (so that a call such as
// TotalVotingPower() can be a leaf).
func EvalInt(v ssa.Value, env Env) (int64, error) {
	if x, ok := env[cfgx.Expr(v)]; ok {
		return x, nil
	}
	switch e := v.(type) {
	case *ssa.Const:
		if e.Value != nil && e.Value.Kind() == constant.Int {
			i, ok := constant.Int64Val(e.Value)
			if ok {
				return i, nil
			}
		}
		return 0, fmt.Errorf("non-integer constant %s", cfgx.Expr(v))
	case *ssa.Convert:
		return EvalInt(e.X, env)
	case *ssa.ChangeType:
		return EvalInt(e.X, env)
	case *ssa.BinOp:
		x, err := EvalInt(e.X, env)
		if err != nil {
			return 0, err
		}
		y, err := EvalInt(e.Y, env)
		if err != nil {
			return 0, err
		}
		switch e.Op {
		case token.ADD:
			return x + y, nil
		case token.SUB:
			return x - y, nil
		case token.MUL:
			return x * y, nil
		case token.QUO:
			if y == 0 {
				return 0, fmt.Errorf("division by zero")
			}
			return x / y, nil
		}
		return 0, fmt.Errorf("unsupported operator %s in %s", e.Op, cfgx.Expr(v))
	case *ssa.Phi:
		return 0, fmt.Errorf("phi in threshold expression %s", cfgx.Expr(v))
	case *ssa.Call:
		// a straight-line arithmetic helper of the repository: evaluate its return expression with the
		// parameters bound to the evaluated arguments
		callee := e.Call.StaticCallee()
		if callee != nil && !e.Call.IsInvoke() && len(callee.Blocks) == 1 && len(callee.Params) == len(e.Call.Args) {
			blk := callee.Blocks[0]
			if ret, ok := blk.Instrs[len(blk.Instrs)-1].(*ssa.Return); ok && len(ret.Results) == 1 {
				sub := Env{}
				for i, a := range e.Call.Args {
					x, err := EvalInt(a, env)
					if err != nil {
						return 0, err
					}
					sub[cfgx.Expr(callee.Params[i])] = x
				}
				return EvalInt(ret.Results[0], sub)
			}
		}
		return 0, fmt.Errorf("unsupported call %s", cfgx.Expr(v))
	}
	return 0, fmt.Errorf("unsupported operand %s (%T)", cfgx.Expr(v), v)
}

// EvalBool evaluates a comparison (or !comparison) whose operands are integer expressions.
func EvalBool(v ssa.Value, env Env) (bool, error) {
	if u, ok := v.(*ssa.UnOp); ok && u.Op == token.NOT {
		b, err := EvalBool(u.X, env)
		return !b, err
	}
	b, ok := v.(*ssa.BinOp)
	if !ok {
		return false, fmt.Errorf("not a comparison: %s", cfgx.Expr(v))
	}
	x, err := EvalInt(b.X, env)
	if err != nil {
		return false, err
	}
	y, err := EvalInt(b.Y, env)
	if err != nil {
		return false, err
	}
	switch b.Op {
	case token.LSS:
		return x < y, nil
	case token.LEQ:
		return x <= y, nil
	case token.GTR:
		return x > y, nil
	case token.GEQ:
		return x >= y, nil
	case token.EQL:
		return x == y, nil
	case token.NEQ:
		return x != y, nil
	}
	return false, fmt.Errorf("unsupported comparison %s", b.Op)
}
