// Package cfgx: E2 — pruned control-flow graphs, dominance, edge-dominance (guard chains),
// reachability and symbolic rendering of SSA values (access paths).
package cfgx

import (
	"fmt"
	"go/constant"
	"go/token"
	"go/types"
	"regexp"
	"sort"
	"strconv"
	"strings"

	"golang.org/x/tools/go/ssa"

	"annverif/core"
)

// ---------------------------------------------------------------------------------------------
// No-return functions

// NoRet holds the set of functions that never return normally (computed to a fixed point).
type NoRet struct {
	set map[*ssa.Function]bool
}

var noRetSeeds = map[string]bool{
	"os.Exit": true, "runtime.Goexit": true, "log.Fatal": true, "log.Fatalf": true, "log.Fatalln": true,
	"log.Panic": true, "log.Panicf": true, "log.Panicln": true,
	"(*log.Logger).Fatal": true, "(*log.Logger).Fatalf": true, "(*log.Logger).Fatalln": true,
	"(*log.Logger).Panic": true, "(*log.Logger).Panicf": true, "(*log.Logger).Panicln": true,
	"(*go.uber.org/zap.SugaredLogger).Fatal": true, "(*go.uber.org/zap.SugaredLogger).Fatalf": true, "(*go.uber.org/zap.SugaredLogger).Fatalw": true,
	"(*go.uber.org/zap.SugaredLogger).Panic": true, "(*go.uber.org/zap.SugaredLogger).Panicf": true, "(*go.uber.org/zap.SugaredLogger).Panicw": true,
	"(*go.uber.org/zap.Logger).Fatal": true, "(*go.uber.org/zap.Logger).Panic": true,
	"(*testing.common).Fatal": true, "(*testing.common).Fatalf": true, "(*testing.common).FailNow": true,
}

// ComputeNoRet computes no-return functions among those with bodies in the module.
func ComputeNoRet(p *core.Prog) *NoRet {
	nr := &NoRet{set: map[*ssa.Function]bool{}}
	for fn := range p.AllFuncs {
		if noRetSeeds[fn.String()] {
			nr.set[fn] = true
		}
	}
	fns := p.RepoFuncs()
	for changed := true; changed; {
		changed = false
		for _, fn := range fns {
			if nr.set[fn] || fn.Blocks == nil {
				continue
			}
			if !hasReachableReturn(fn, nr) {
				// a function that recovers may return normally after a panic
				if fn.Recover != nil {
					continue
				}
				nr.set[fn] = true
				changed = true
			}
		}
	}
	lastNoRet = nr
	return nr
}

// lastNoRet is the most recently computed no-return set (used when summarising predicate helpers).
var lastNoRet *NoRet

func (nr *NoRet) Is(fn *ssa.Function) bool { return fn != nil && nr.set[fn] }

// IsNoRetCall reports whether the instruction is a call to a no-return function.
func (nr *NoRet) IsNoRetCall(ins ssa.Instruction) bool {
	c, ok := ins.(*ssa.Call)
	if !ok {
		return false
	}
	if callee := c.Call.StaticCallee(); callee != nil {
		return nr.set[callee]
	}
	return false
}

func (nr *NoRet) Names() []string {
	var out []string
	for fn := range nr.set {
		if n := core.FuncName(fn); strings.HasPrefix(n, core.Mod) {
			out = append(out, core.Short(n))
		}
	}
	sort.Strings(out)
	return out
}

func hasReachableReturn(fn *ssa.Function, nr *NoRet) bool {
	seen := make([]bool, len(fn.Blocks))
	work := []*ssa.BasicBlock{fn.Blocks[0]}
	seen[0] = true
	for len(work) > 0 {
		b := work[len(work)-1]
		work = work[:len(work)-1]
		cut := false
		for _, ins := range b.Instrs {
			if nr.IsNoRetCall(ins) {
				cut = true
				break
			}
			if _, ok := ins.(*ssa.Return); ok {
				return true
			}
		}
		if cut {
			continue
		}
		for _, s := range b.Succs {
			if !seen[s.Index] {
				seen[s.Index] = true
				work = append(work, s)
			}
		}
	}
	return false
}

// ---------------------------------------------------------------------------------------------
// Per-function pruned CFG

type Fn struct {
	F     *ssa.Function
	NR    *NoRet
	succ  [][]int // pruned successors
	pred  [][]int
	cutAt []int // index of the first no-return call in the block, or -1
	reach []bool
	dom   []bitset // dom[b] = set of blocks dominating b (pruned graph)
	pos   map[ssa.Instruction][2]int
}

type bitset []uint64

func newBitset(n int) bitset { return make(bitset, (n+63)/64) }
func (b bitset) set(i int)   { b[i/64] |= 1 << uint(i%64) }
func (b bitset) has(i int) bool {
	return b[i/64]&(1<<uint(i%64)) != 0
}
func (b bitset) fill() {
	for i := range b {
		b[i] = ^uint64(0)
	}
}
func (b bitset) andWith(o bitset) bool {
	ch := false
	for i := range b {
		n := b[i] & o[i]
		if n != b[i] {
			ch = true
			b[i] = n
		}
	}
	return ch
}
func (b bitset) copyFrom(o bitset) { copy(b, o) }

// New builds the pruned CFG of fn.
func New(fn *ssa.Function, nr *NoRet) *Fn {
	n := len(fn.Blocks)
	f := &Fn{F: fn, NR: nr, succ: make([][]int, n), pred: make([][]int, n), cutAt: make([]int, n), reach: make([]bool, n), pos: map[ssa.Instruction][2]int{}}
	for _, b := range fn.Blocks {
		f.cutAt[b.Index] = -1
		for i, ins := range b.Instrs {
			f.pos[ins] = [2]int{b.Index, i}
			if f.cutAt[b.Index] < 0 && nr != nil && nr.IsNoRetCall(ins) {
				f.cutAt[b.Index] = i
			}
		}
		if f.cutAt[b.Index] < 0 {
			for _, s := range b.Succs {
				f.succ[b.Index] = append(f.succ[b.Index], s.Index)
			}
		}
	}
	if n == 0 {
		return f
	}
	// reachability
	work := []int{0}
	f.reach[0] = true
	for len(work) > 0 {
		b := work[len(work)-1]
		work = work[:len(work)-1]
		for _, s := range f.succ[b] {
			if !f.reach[s] {
				f.reach[s] = true
				work = append(work, s)
			}
		}
	}
	// also the recover block is an entry (after a recovered panic)
	for b := 0; b < n; b++ {
		if !f.reach[b] {
			f.succ[b] = nil
			continue
		}
		for _, s := range f.succ[b] {
			f.pred[s] = append(f.pred[s], b)
		}
	}
	// dominators (iterative)
	f.dom = make([]bitset, n)
	for b := 0; b < n; b++ {
		f.dom[b] = newBitset(n)
		if b == 0 {
			f.dom[b].set(0)
		} else {
			f.dom[b].fill()
		}
	}
	tmp := newBitset(n)
	for changed := true; changed; {
		changed = false
		for b := 1; b < n; b++ {
			if !f.reach[b] {
				continue
			}
			tmp.fill()
			for _, p := range f.pred[b] {
				tmp.andWith(f.dom[p])
			}
			tmp.set(b)
			for i := range tmp {
				if tmp[i] != f.dom[b][i] {
					changed = true
				}
			}
			f.dom[b].copyFrom(tmp)
		}
	}
	return f
}

// Live reports whether the instruction is reachable in the pruned graph (not after a no-return call).
func (f *Fn) Live(ins ssa.Instruction) bool {
	p, ok := f.pos[ins]
	if !ok {
		return false
	}
	if !f.reach[p[0]] {
		return false
	}
	if c := f.cutAt[p[0]]; c >= 0 && p[1] > c {
		return false
	}
	return true
}

// BlockDominates: block a dominates block b in the pruned graph.
func (f *Fn) BlockDominates(a, b int) bool { return f.reach[b] && f.dom[b].has(a) }

// Dominates: every path from entry to b passes through a (instruction level).
func (f *Fn) Dominates(a, b ssa.Instruction) bool {
	pa, ok1 := f.pos[a]
	pb, ok2 := f.pos[b]
	if !ok1 || !ok2 {
		return false
	}
	if pa[0] == pb[0] {
		return pa[1] < pb[1]
	}
	return f.BlockDominates(pa[0], pb[0])
}

// Reaches: there is a path (in the pruned graph) on which a executes and later b executes.
func (f *Fn) Reaches(a, b ssa.Instruction) bool {
	pa, ok1 := f.pos[a]
	pb, ok2 := f.pos[b]
	if !ok1 || !ok2 || !f.Live(a) || !f.Live(b) {
		return false
	}
	if pa[0] == pb[0] && pa[1] < pb[1] {
		return true
	}
	// blocks reachable from pa[0]'s successors
	seen := make([]bool, len(f.succ))
	var work []int
	if c := f.cutAt[pa[0]]; c >= 0 {
		return false // a's block never leaves
	}
	for _, s := range f.succ[pa[0]] {
		if !seen[s] {
			seen[s] = true
			work = append(work, s)
		}
	}
	for len(work) > 0 {
		x := work[len(work)-1]
		work = work[:len(work)-1]
		if x == pb[0] {
			return true
		}
		for _, s := range f.succ[x] {
			if !seen[s] {
				seen[s] = true
				work = append(work, s)
			}
		}
	}
	return false
}

// PathAvoiding searches a path from instruction `from` (exclusive) to any instruction satisfying
// `target`, that does not execute any instruction satisfying `avoid`. It returns the block path
// as witness. A nil `from` means the function entry.
func (f *Fn) PathAvoiding(from ssa.Instruction, target, avoid func(ssa.Instruction) bool) (bool, []int) {
	startB, startI := 0, 0
	if from != nil {
		p, ok := f.pos[from]
		if !ok || !f.Live(from) {
			return false, nil
		}
		startB, startI = p[0], p[1]+1
	} else if len(f.F.Blocks) == 0 {
		return false, nil
	}
	type item struct {
		b    int
		path []int
	}
	// scan returns: hitTarget, blocked
	scan := func(b, i0 int) (bool, bool) {
		blk := f.F.Blocks[b]
		for i := i0; i < len(blk.Instrs); i++ {
			ins := blk.Instrs[i]
			if avoid != nil && avoid(ins) {
				return false, true
			}
			if target(ins) {
				return true, false
			}
			if f.cutAt[b] == i {
				return false, true
			}
		}
		return false, false
	}
	hit, blocked := scan(startB, startI)
	if hit {
		return true, []int{startB}
	}
	if blocked {
		return false, nil
	}
	seen := make([]bool, len(f.succ))
	var work []item
	for _, s := range f.succ[startB] {
		if !seen[s] {
			seen[s] = true
			work = append(work, item{s, []int{startB, s}})
		}
	}
	for len(work) > 0 {
		it := work[0]
		work = work[1:]
		hit, blocked := scan(it.b, 0)
		if hit {
			return true, it.path
		}
		if blocked {
			continue
		}
		for _, s := range f.succ[it.b] {
			if !seen[s] {
				seen[s] = true
				np := append(append([]int{}, it.path...), s)
				work = append(work, item{s, np})
			}
		}
	}
	return false, nil
}

// IsReturn is a target predicate for normal exits.
func IsReturn(ins ssa.Instruction) bool { _, ok := ins.(*ssa.Return); return ok }

// ---------------------------------------------------------------------------------------------
// Guards (edge dominance)

// Guard: the block is reached only through the `Pol` edge of If.
type Guard struct {
	If   *ssa.If
	Cond ssa.Value
	Pol  bool
}

// Guards returns the conditions that edge-dominate the instruction: every path from entry to the
// instruction traverses the Pol-edge of the If. Computed exactly by edge removal.
func (f *Fn) Guards(ins ssa.Instruction) []Guard {
	p, ok := f.pos[ins]
	if !ok {
		return nil
	}
	return f.BlockGuards(p[0])
}

func (f *Fn) BlockGuards(target int) []Guard {
	var out []Guard
	if !f.reach[target] {
		return nil
	}
	for b := range f.succ {
		if !f.reach[b] || len(f.succ[b]) != 2 {
			continue
		}
		blk := f.F.Blocks[b]
		iff, ok := blk.Instrs[len(blk.Instrs)-1].(*ssa.If)
		if !ok {
			continue
		}
		if !(b == target || f.dom[target].has(b)) {
			continue
		}
		if f.succ[b][0] == f.succ[b][1] {
			continue
		}
		for k := 0; k < 2; k++ {
			// remove edge b->succ[k]; is target still reachable from entry?
			if !f.reachableWithoutEdge(target, b, k) {
				out = append(out, Guard{If: iff, Cond: iff.Cond, Pol: k == 0})
			}
		}
	}
	return out
}

func (f *Fn) reachableWithoutEdge(target, eb, ek int) bool {
	if target == 0 {
		return true
	}
	seen := make([]bool, len(f.succ))
	seen[0] = true
	work := []int{0}
	for len(work) > 0 {
		x := work[len(work)-1]
		work = work[:len(work)-1]
		for k, s := range f.succ[x] {
			if x == eb && k == ek {
				continue
			}
			if !seen[s] {
				if s == target {
					return true
				}
				seen[s] = true
				work = append(work, s)
			}
		}
	}
	return false
}

// GuardStrings renders the guards of an instruction as "+expr" / "-expr".
func (f *Fn) GuardStrings(ins ssa.Instruction) []string {
	var out []string
	for _, g := range f.Guards(ins) {
		out = append(out, GuardString(g))
	}
	sort.Strings(out)
	return out
}

func GuardString(g Guard) string {
	s := Expr(g.Cond)
	if g.Pol {
		return "+" + s
	}
	return "-" + s
}

// HasGuard reports whether some guard of ins renders (with polarity) to a string accepted by match.
// Negations are normalised: "-(a == b)" is also offered as "+(a != b)" and so on.
func (f *Fn) HasGuard(ins ssa.Instruction, match func(string) bool) bool {
	for _, g := range f.Guards(ins) {
		for _, s := range NormGuard(g) {
			if match(s) {
				return true
			}
		}
	}
	return false
}

var negOp = map[token.Token]token.Token{token.EQL: token.NEQ, token.NEQ: token.EQL, token.LSS: token.GEQ, token.GEQ: token.LSS, token.GTR: token.LEQ, token.LEQ: token.GTR}
var swapOp = map[token.Token]token.Token{token.EQL: token.EQL, token.NEQ: token.NEQ, token.LSS: token.GTR, token.GTR: token.LSS, token.LEQ: token.GEQ, token.GEQ: token.LEQ}

// NormGuard renders a guard positively in all equivalent comparison forms, e.g. the false edge of
// (a < b) yields "(a >= b)" and "(b <= a)". Non-comparison conditions yield "expr" or "!expr".
func NormGuard(g Guard) []string {
	out := normCond(g.Cond, g.Pol)
	// a call to a small predicate helper of the repository implies the conditions that hold on every
	// path to that result ("extract a boolean helper" must not hide the guard from the rules)
	c, pol := g.Cond, g.Pol
	for {
		if u, ok := c.(*ssa.UnOp); ok && u.Op == token.NOT {
			c, pol = u.X, !pol
			continue
		}
		break
	}
	if call, ok := c.(*ssa.Call); ok {
		out = append(out, impliedByPredicate(call, pol, 0)...)
	}
	return out
}

func normCond(c ssa.Value, pol bool) []string {
	for {
		if u, ok := c.(*ssa.UnOp); ok && u.Op == token.NOT {
			c = u.X
			pol = !pol
			continue
		}
		break
	}
	if b, ok := c.(*ssa.BinOp); ok {
		if _, isCmp := negOp[b.Op]; isCmp {
			op := b.Op
			if !pol {
				op = negOp[op]
			}
			x, y := Expr(b.X), Expr(b.Y)
			out := []string{
				fmt.Sprintf("(%s %s %s)", x, op, y),
				fmt.Sprintf("(%s %s %s)", y, swapOp[op], x),
			}
			// a length is never negative: len(s) < 1, len(s) <= 0 say len(s) == 0; len(s) >= 1, len(s) > 0 say len(s) != 0
			lx, ly, lop := x, y, op
			if strings.HasPrefix(ly, "len(") {
				lx, ly, lop = y, x, swapOp[op]
			}
			if strings.HasPrefix(lx, "len(") {
				eq := ""
				switch {
				case (lop == token.LSS && ly == "1") || (lop == token.LEQ && ly == "0"):
					eq = "=="
				case (lop == token.GEQ && ly == "1") || (lop == token.GTR && ly == "0"):
					eq = "!="
				}
				if eq != "" {
					out = append(out, fmt.Sprintf("(%s %s 0)", lx, eq), fmt.Sprintf("(0 %s %s)", eq, lx))
				}
			}
			return out
		}
	}
	if pol {
		return []string{Expr(c)}
	}
	return []string{"!" + Expr(c)}
}

// predSummary: guard strings (over the callee's parameters a0, a1, ...) that hold whenever the
// predicate returns true / false.
type predSummary struct {
	ok           bool
	whenT, whenF []string   // forms common to every path producing that result
	altT, altF   [][]string // per producing path: its forms (disjunction of conjunctions)
}

var predCache = map[*ssa.Function]*predSummary{}

var reParamTok = regexp.MustCompile(`\ba([0-9]+)\b`)

func impliedByPredicate(call *ssa.Call, pol bool, depth int) []string {
	callee := call.Call.StaticCallee()
	if callee == nil || callee.Blocks == nil || depth > 1 || call.Call.IsInvoke() {
		return nil
	}
	ps := summarisePredicate(callee, depth)
	if ps == nil || !ps.ok {
		return nil
	}
	src := ps.whenF
	if pol {
		src = ps.whenT
	}
	if len(src) == 0 {
		return nil
	}
	args := make([]string, len(call.Call.Args))
	for i, a := range call.Call.Args {
		args[i] = Expr(a)
	}
	var out []string
	for _, g := range src {
		out = append(out, reParamTok.ReplaceAllStringFunc(g, func(m string) string {
			i, _ := strconv.Atoi(m[1:])
			if i < len(args) {
				return args[i]
			}
			return m
		}))
	}
	return out
}

// predicateAlternatives: for a guard whose condition is a call to a summarised predicate helper, the
// alternative sets of forms (one per path through the helper that yields the guard's polarity), with the
// helper's parameters replaced by the call's arguments. nil when the guard is not such a call.
func predicateAlternatives(g Guard) [][]string {
	c, pol := g.Cond, g.Pol
	for {
		if u, ok := c.(*ssa.UnOp); ok && u.Op == token.NOT {
			c, pol = u.X, !pol
			continue
		}
		break
	}
	call, ok := c.(*ssa.Call)
	if !ok || call.Call.IsInvoke() {
		return nil
	}
	callee := call.Call.StaticCallee()
	if callee == nil || callee.Blocks == nil {
		return nil
	}
	ps := summarisePredicate(callee, 0)
	if ps == nil || !ps.ok {
		return nil
	}
	alts := ps.altF
	if pol {
		alts = ps.altT
	}
	if len(alts) < 2 {
		return nil // a single alternative is already covered by the implied guards
	}
	args := make([]string, len(call.Call.Args))
	for i, a := range call.Call.Args {
		args[i] = Expr(a)
	}
	var out [][]string
	for _, alt := range alts {
		var l []string
		for _, f := range alt {
			l = append(l, reParamTok.ReplaceAllStringFunc(f, func(m string) string {
				i, _ := strconv.Atoi(m[1:])
				if i < len(args) {
					return args[i]
				}
				return m
			}))
		}
		out = append(out, l)
	}
	return out
}

func summarisePredicate(fn *ssa.Function, depth int) *predSummary {
	if ps, ok := predCache[fn]; ok {
		return ps
	}
	ps := &predSummary{}
	predCache[fn] = ps // also cuts recursion
	res := fn.Signature.Results()
	if res.Len() != 1 || len(fn.Blocks) > 12 || fn.Recover != nil {
		return ps
	}
	if b, ok := res.At(0).Type().Underlying().(*types.Basic); !ok || b.Kind() != types.Bool {
		return ps
	}
	// side-effect free in the sense that matters: it stores nothing and starts nothing
	for _, b := range fn.Blocks {
		for _, ins := range b.Instrs {
			switch x := ins.(type) {
			case *ssa.Store:
				// spilling a by-value parameter into its own local is not an effect
				if _, isAlloc := x.Addr.(*ssa.Alloc); !isAlloc {
					return ps
				}
			case *ssa.MapUpdate, *ssa.Send, *ssa.Go, *ssa.Defer, *ssa.Panic, *ssa.Select:
				return ps
			}
		}
	}
	f := New(fn, lastNoRet)
	type contrib struct {
		forms map[string]bool
		val   ssa.Value
	}
	var contribs []contrib
	guardSet := func(gs []Guard) map[string]bool {
		m := map[string]bool{}
		for _, g := range gs {
			for _, s := range normCond(g.Cond, g.Pol) {
				m[s] = true
			}
		}
		return m
	}
	// per-path guard sets of a block ((a || b) && c has no edge-dominating guard for a or b: the
	// alternatives are only visible per path); falls back to the dominating guards
	pathSets := func(bi int) []map[string]bool {
		blk := fn.Blocks[bi]
		if pgs, ok := f.PathGuards(blk.Instrs[len(blk.Instrs)-1], 32); ok && len(pgs) > 0 {
			return pgs
		}
		return []map[string]bool{guardSet(f.BlockGuards(bi))}
	}
	for _, r := range f.Returns() {
		vals := f.ReturnValues(r)
		if len(vals) != 1 {
			return ps
		}
		v := vals[0]
		if phi, ok := v.(*ssa.Phi); ok && phi.Block() == r.Block() {
			for i, e := range phi.Edges {
				pb := phi.Block().Preds[i]
				if !f.reach[pb.Index] {
					continue
				}
				for _, m := range pathSets(pb.Index) {
					if iff, ok := pb.Instrs[len(pb.Instrs)-1].(*ssa.If); ok && len(pb.Succs) == 2 && pb.Succs[0] != pb.Succs[1] {
						for _, s := range normCond(iff.Cond, pb.Succs[0] == phi.Block()) {
							m[s] = true
						}
					}
					contribs = append(contribs, contrib{m, e})
				}
			}
			continue
		}
		for _, m := range pathSets(r.Block().Index) {
			contribs = append(contribs, contrib{m, v})
		}
	}
	if len(contribs) == 0 {
		return ps
	}
	var tsets, fsets []map[string]bool
	with := func(m map[string]bool, extra []string) map[string]bool {
		o := map[string]bool{}
		for k := range m {
			o[k] = true
		}
		for _, e := range extra {
			o[e] = true
		}
		return o
	}
	for _, c := range contribs {
		if k, ok := c.val.(*ssa.Const); ok && k.Value != nil {
			if constant.BoolVal(k.Value) {
				tsets = append(tsets, c.forms)
			} else {
				fsets = append(fsets, c.forms)
			}
			continue
		}
		tsets = append(tsets, with(c.forms, normCond(c.val, true)))
		fsets = append(fsets, with(c.forms, normCond(c.val, false)))
	}
	inter := func(sets []map[string]bool) []string {
		if len(sets) == 0 {
			return nil
		}
		var out []string
		for k := range sets[0] {
			all := true
			for _, s := range sets[1:] {
				if !s[k] {
					all = false
					break
				}
			}
			if all && !strings.Contains(k, "local:") && !strings.Contains(k, "phi(") {
				out = append(out, k)
			}
		}
		sort.Strings(out)
		return out
	}
	ps.whenT, ps.whenF = inter(tsets), inter(fsets)
	flat := func(sets []map[string]bool) [][]string {
		var out [][]string
		for _, m := range sets {
			var l []string
			for k := range m {
				l = append(l, k)
			}
			sort.Strings(l)
			out = append(out, l)
		}
		return out
	}
	ps.altT, ps.altF = flat(tsets), flat(fsets)
	ps.ok = true
	return ps
}

// AllGuardForms lists all normalised guard strings of an instruction (for diagnostics and matching).
func (f *Fn) AllGuardForms(ins ssa.Instruction) []string {
	var out []string
	for _, g := range f.Guards(ins) {
		out = append(out, NormGuard(g)...)
	}
	sort.Strings(out)
	return out
}

// ---------------------------------------------------------------------------------------------
// Symbolic rendering of SSA values

// Expr renders an SSA value as a symbolic expression over parameters (a0, a1, ...), free variables
// (fv:name), globals, constants, field/index chains and calls with resolved callee names.
func Expr(v ssa.Value) string {
	return exprDepth(v, 0, map[ssa.Value]bool{})
}

const maxDepth = 16

func exprDepth(v ssa.Value, d int, onstack map[ssa.Value]bool) string {
	if v == nil {
		return "<nil>"
	}
	if d > maxDepth {
		return "…"
	}
	if onstack[v] {
		return "loop"
	}
	onstack[v] = true
	defer delete(onstack, v)
	r := func(x ssa.Value) string { return exprDepth(x, d+1, onstack) }
	switch x := v.(type) {
	case *ssa.Parameter:
		for i, p := range x.Parent().Params {
			if p == x {
				return fmt.Sprintf("a%d", i)
			}
		}
		return "a?"
	case *ssa.FreeVar:
		return "fv:" + x.Name()
	case *ssa.Const:
		if x.Value == nil {
			return "nil"
		}
		if x.Value.Kind() == constant.String {
			return x.Value.ExactString()
		}
		return x.Value.ExactString()
	case *ssa.Global:
		return "g:" + pkgOf(x.Pkg) + "." + x.Name()
	case *ssa.Function:
		return "fn:" + core.Short(core.FuncName(x))
	case *ssa.Builtin:
		return x.Name()
	case *ssa.Alloc:
		// A local with exactly one store behaves like an SSA value (parameters captured by a
		// closure, `x, ok := f()` results that are address-taken): render the stored value, so that
		// expressions do not depend on whether a variable happens to be spilled.
		if sv := singleStore(x); sv != nil {
			return r(sv)
		}
		// local variable; identify by its source name when available
		if x.Comment != "" {
			return "local:" + x.Comment
		}
		return "local:" + x.Name()
	case *ssa.FieldAddr:
		return r(x.X) + "." + fieldName(x.X.Type(), x.Field)
	case *ssa.Field:
		return r(x.X) + "." + fieldName(x.X.Type(), x.Field)
	case *ssa.IndexAddr:
		return r(x.X) + "[" + r(x.Index) + "]"
	case *ssa.Index:
		return r(x.X) + "[" + r(x.Index) + "]"
	case *ssa.Lookup:
		return r(x.X) + "[" + r(x.Index) + "]"
	case *ssa.UnOp:
		switch x.Op {
		case token.MUL:
			// load: transparent for access paths
			return r(x.X)
		case token.ARROW:
			return "<-" + r(x.X)
		default:
			return x.Op.String() + r(x.X)
		}
	case *ssa.BinOp:
		return "(" + r(x.X) + " " + x.Op.String() + " " + r(x.Y) + ")"
	case *ssa.Call:
		return callString(&x.Call, r)
	case *ssa.Extract:
		return r(x.Tuple) + "#" + fmt.Sprint(x.Index)
	case *ssa.Phi:
		var parts []string
		seen := map[string]bool{}
		for _, e := range x.Edges {
			s := r(e)
			if !seen[s] {
				seen[s] = true
				parts = append(parts, s)
			}
		}
		sort.Strings(parts)
		if len(parts) == 1 {
			return parts[0]
		}
		return "phi(" + strings.Join(parts, "|") + ")"
	case *ssa.Convert:
		return r(x.X)
	case *ssa.ChangeType:
		return r(x.X)
	case *ssa.ChangeInterface:
		return r(x.X)
	case *ssa.MakeInterface:
		return r(x.X)
	case *ssa.TypeAssert:
		s := r(x.X) + ".(" + typeStr(x.AssertedType) + ")"
		return s
	case *ssa.Slice:
		lo, hi := "", ""
		if x.Low != nil {
			lo = r(x.Low)
		}
		if x.High != nil {
			hi = r(x.High)
		}
		return r(x.X) + "[" + lo + ":" + hi + "]"
	case *ssa.MakeClosure:
		return "closure:" + core.Short(core.FuncName(x.Fn.(*ssa.Function)))
	case *ssa.MakeSlice:
		return "make(" + typeStr(x.Type()) + "," + r(x.Len) + ")"
	case *ssa.MakeMap:
		return "make(" + typeStr(x.Type()) + ")"
	case *ssa.MakeChan:
		return "make(" + typeStr(x.Type()) + "," + r(x.Size) + ")"
	case *ssa.Range:
		return "range(" + r(x.X) + ")"
	case *ssa.Next:
		return "next(" + r(x.Iter) + ")"
	case *ssa.Select:
		return "select"
	}
	return fmt.Sprintf("%T:%s", v, v.Name())
}

func callString(c *ssa.CallCommon, r func(ssa.Value) string) string {
	var args []string
	for _, a := range c.Args {
		args = append(args, r(a))
	}
	if c.IsInvoke() {
		return r(c.Value) + "." + c.Method.Name() + "(" + strings.Join(args, ",") + ")"
	}
	if callee := c.StaticCallee(); callee != nil {
		n := core.Short(core.FuncName(callee))
		if n == "" {
			n = callee.String()
		}
		return n + "(" + strings.Join(args, ",") + ")"
	}
	return r(c.Value) + "(" + strings.Join(args, ",") + ")"
}

func pkgOf(p *ssa.Package) string {
	if p == nil {
		return ""
	}
	return core.Short(p.Pkg.Path())
}

func fieldName(t types.Type, i int) string {
	if pt, ok := t.Underlying().(*types.Pointer); ok {
		t = pt.Elem()
	}
	if st, ok := t.Underlying().(*types.Struct); ok && i < st.NumFields() {
		return st.Field(i).Name()
	}
	return fmt.Sprintf("f%d", i)
}

func typeStr(t types.Type) string {
	return types.TypeString(t, func(p *types.Package) string { return core.Short(p.Path()) })
}

// ---------------------------------------------------------------------------------------------
// Finding instructions

// Calls returns every call-like instruction (Call, Defer, Go) in fn, live in the pruned graph.
func (f *Fn) Calls() []ssa.CallInstruction {
	var out []ssa.CallInstruction
	for _, b := range f.F.Blocks {
		for _, ins := range b.Instrs {
			if c, ok := ins.(ssa.CallInstruction); ok && f.Live(ins) {
				out = append(out, c)
			}
		}
	}
	return out
}

// CalleeName gives a resolved name for the target of a call: static callee's canonical short
// name; "iface:<Type>.<Method>" for interface invocations; "dyn:<expr>" for dynamic calls.
func CalleeName(c ssa.CallInstruction) string {
	cc := c.Common()
	if cc.IsInvoke() {
		return "iface:" + typeStr(cc.Value.Type()) + "." + cc.Method.Name()
	}
	if callee := cc.StaticCallee(); callee != nil {
		n := core.Short(core.FuncName(callee))
		if n == "" {
			n = callee.String()
		}
		return n
	}
	if b, ok := cc.Value.(*ssa.Builtin); ok {
		return "builtin:" + b.Name()
	}
	return "dyn:" + Expr(cc.Value)
}

// CallsTo returns the live calls in fn whose CalleeName satisfies pred.
func (f *Fn) CallsTo(pred func(name string) bool) []ssa.CallInstruction {
	var out []ssa.CallInstruction
	for _, c := range f.Calls() {
		if pred(CalleeName(c)) {
			out = append(out, c)
		}
	}
	return out
}

// Named returns a predicate matching any of the given names exactly.
func Named(names ...string) func(string) bool {
	return func(s string) bool {
		for _, n := range names {
			if s == n {
				return true
			}
		}
		return false
	}
}

// Stores returns live Store instructions whose address renders to a path accepted by pred.
func (f *Fn) Stores(pred func(addr string) bool) []*ssa.Store {
	var out []*ssa.Store
	for _, b := range f.F.Blocks {
		for _, ins := range b.Instrs {
			if s, ok := ins.(*ssa.Store); ok && f.Live(ins) && pred(AddrExpr(s.Addr)) {
				out = append(out, s)
			}
		}
	}
	return out
}

// FieldStores returns live stores to the given field of the named struct type (any base object).
func (f *Fn) FieldStores(typeName, field string) []*ssa.Store {
	var out []*ssa.Store
	for _, b := range f.F.Blocks {
		for _, ins := range b.Instrs {
			s, ok := ins.(*ssa.Store)
			if !ok || !f.Live(ins) {
				continue
			}
			if fa, ok := s.Addr.(*ssa.FieldAddr); ok && IsField(fa, typeName, field) {
				out = append(out, s)
			}
		}
	}
	return out
}

// IsField reports whether fa addresses field `field` of the named struct type `typeName`
// (typeName is "pkgrel.Type", e.g. "gemmill/consensus/pbft.RoundState").
func IsField(fa *ssa.FieldAddr, typeName, field string) bool {
	t := fa.X.Type()
	if pt, ok := t.Underlying().(*types.Pointer); ok {
		t = pt.Elem()
	}
	nt, ok := t.(*types.Named)
	if !ok {
		return false
	}
	if typeStr(nt) != typeName {
		return false
	}
	return fieldName(fa.X.Type(), fa.Field) == field
}

// IsNilConst reports whether v is the nil constant (or a zero constant for numbers).
func IsNilConst(v ssa.Value) bool {
	c, ok := v.(*ssa.Const)
	return ok && c.Value == nil
}

func IsZeroConst(v ssa.Value) bool {
	c, ok := v.(*ssa.Const)
	if !ok {
		return false
	}
	if c.Value == nil {
		return true
	}
	if c.Value.Kind() == constant.Int {
		i, ok := constant.Int64Val(c.Value)
		return ok && i == 0
	}
	return false
}

// Returns lists the live Return instructions.
func (f *Fn) Returns() []*ssa.Return {
	var out []*ssa.Return
	for _, b := range f.F.Blocks {
		for _, ins := range b.Instrs {
			if r, ok := ins.(*ssa.Return); ok && f.Live(ins) {
				out = append(out, r)
			}
		}
	}
	return out
}

// BlockOf gives the block index of an instruction.
func (f *Fn) BlockOf(ins ssa.Instruction) int { return f.pos[ins][0] }

// Has reports whether ins belongs to this function.
func (f *Fn) Has(ins ssa.Instruction) bool { _, ok := f.pos[ins]; return ok }

// Contains is a small helper for guard matching.
func Contains(sub string) func(string) bool {
	return func(s string) bool { return strings.Contains(s, sub) }
}

func Equals(want string) func(string) bool {
	return func(s string) bool { return s == want }
}

// ValueAt resolves a load from a local variable (an address-taken or defer-spilled Alloc) to the
// value stored into it by the unique store that dominates `at` and is dominated by every other
// dominating store (the latest one on all paths). If no such unique store exists, v is returned.
func (f *Fn) ValueAt(v ssa.Value, at ssa.Instruction) ssa.Value {
	u, ok := v.(*ssa.UnOp)
	if !ok || u.Op != token.MUL {
		return v
	}
	al, ok := u.X.(*ssa.Alloc)
	if !ok {
		return v
	}
	var doms []*ssa.Store
	all := 0
	for _, r := range *al.Referrers() {
		st, ok := r.(*ssa.Store)
		if !ok || st.Addr != ssa.Value(al) {
			continue
		}
		if !f.Live(st) {
			continue
		}
		all++
		if f.Dominates(st, at) {
			doms = append(doms, st)
		} else if f.Reaches(st, at) {
			// a non-dominating store may reach: ambiguous
			return v
		}
	}
	var best *ssa.Store
	for _, s := range doms {
		latest := true
		for _, o := range doms {
			if o != s && !f.Dominates(o, s) {
				latest = false
			}
		}
		if latest {
			best = s
		}
	}
	if best == nil {
		return v
	}
	return best.Val
}

// ReturnValues gives the results of a return with defer-spilled locals resolved.
func (f *Fn) ReturnValues(ret *ssa.Return) []ssa.Value {
	out := make([]ssa.Value, len(ret.Results))
	for i, r := range ret.Results {
		out[i] = f.ValueAt(r, ret)
	}
	return out
}

// singleStore returns the value of the only Store into the alloc (nil if none or several, or if
// the address escapes into something other than loads, stores, field/index addressing and closures).
func singleStore(al *ssa.Alloc) ssa.Value {
	if al.Referrers() == nil {
		return nil
	}
	var val ssa.Value
	n := 0
	for _, r := range *al.Referrers() {
		switch x := r.(type) {
		case *ssa.Store:
			if x.Addr == ssa.Value(al) {
				n++
				val = x.Val
			}
		case *ssa.FieldAddr, *ssa.IndexAddr:
			// partial writes through sub-addresses: check that none of them is a store target
			if hasStoreThrough(x.(ssa.Value)) {
				return nil
			}
		}
	}
	if n == 1 {
		if _, isAlloc := val.(*ssa.Alloc); isAlloc {
			return nil
		}
		// the store must dominate every other use of the variable (otherwise a use may see the
		// zero value, e.g. a loop-carried `var ti T; for { ... ti = x }`)
		var st *ssa.Store
		for _, r := range *al.Referrers() {
			if x, ok := r.(*ssa.Store); ok && x.Addr == ssa.Value(al) {
				st = x
			}
		}
		for _, r := range *al.Referrers() {
			if r == ssa.Instruction(st) {
				continue
			}
			if !instrDominates(st, r) {
				return nil
			}
		}
		return val
	}
	return nil
}

func instrDominates(a, b ssa.Instruction) bool {
	ba, bb := a.Block(), b.Block()
	if ba == nil || bb == nil {
		return false
	}
	if ba == bb {
		for _, ins := range ba.Instrs {
			if ins == a {
				return true
			}
			if ins == b {
				return false
			}
		}
		return false
	}
	return ba.Dominates(bb)
}

func hasStoreThrough(addr ssa.Value) bool {
	refs := addr.Referrers()
	if refs == nil {
		return false
	}
	for _, r := range *refs {
		switch x := r.(type) {
		case *ssa.Store:
			if x.Addr == addr {
				return true
			}
		case *ssa.FieldAddr:
			if hasStoreThrough(x) {
				return true
			}
		case *ssa.IndexAddr:
			if hasStoreThrough(x) {
				return true
			}
		}
	}
	return false
}

// AddrExpr renders the address operand of a store: a bare local is shown by name (not by the
// value of its single store).
func AddrExpr(v ssa.Value) string {
	if al, ok := v.(*ssa.Alloc); ok {
		if al.Comment != "" {
			return "local:" + al.Comment
		}
		return "local:" + al.Name()
	}
	return Expr(v)
}

// PathGuards enumerates the acyclic paths (each block at most once) from the entry to the
// instruction and returns, per path, the set of normalised guard strings of the If edges taken.
// ok=false if more than max paths exist.
func (f *Fn) PathGuards(target ssa.Instruction, max int) (paths []map[string]bool, ok bool) {
	tp, has := f.pos[target]
	if !has || !f.Live(target) {
		return nil, true
	}
	ok = true
	visited := make([]bool, len(f.succ))
	var cur []Guard
	var extra []string // forms contributed by the chosen alternative of predicate-helper guards
	var walk func(b int)
	walk = func(b int) {
		if !ok {
			return
		}
		if b == tp[0] {
			m := map[string]bool{}
			for _, g := range cur {
				for _, s := range NormGuard(g) {
					m[s] = true
				}
			}
			for _, s := range extra {
				m[s] = true
			}
			paths = append(paths, m)
			if len(paths) > max {
				ok = false
			}
			return
		}
		visited[b] = true
		blk := f.F.Blocks[b]
		iff, isIf := blk.Instrs[len(blk.Instrs)-1].(*ssa.If)
		for k, s := range f.succ[b] {
			if visited[s] {
				continue
			}
			if isIf && len(f.succ[b]) == 2 {
				g := Guard{If: iff, Cond: iff.Cond, Pol: k == 0}
				cur = append(cur, g)
				if alts := predicateAlternatives(g); alts != nil {
					for _, alt := range alts {
						n0 := len(extra)
						extra = append(extra, alt...)
						walk(s)
						extra = extra[:n0]
					}
				} else {
					walk(s)
				}
				cur = cur[:len(cur)-1]
			} else {
				walk(s)
			}
		}
		visited[b] = false
	}
	walk(0)
	return paths, ok
}

// PathGuardsHas returns the (possibly empty) list containing g if the instruction is edge-dominated
// by a guard rendering to g. (Convenience for rules that already hold the string.)
func (f *Fn) PathGuardsHas(ins ssa.Instruction, g string) []string {
	if f.HasGuard(ins, Equals(g)) {
		return []string{g}
	}
	return nil
}
