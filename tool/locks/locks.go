// Package locks: E6 — lockset (must-hold / may-hold) analysis, guarded-by checking and the lock-order
// graph. Mutexes are identified by (named struct type, field); heap modelling is field-based.
package locks

import (
	"fmt"
	"go/types"
	"sort"
	"strings"

	"golang.org/x/tools/go/callgraph"
	"golang.org/x/tools/go/ssa"

	"annverif/cfgx"
	"annverif/core"
)

type Set map[string]bool

func (s Set) clone() Set {
	o := Set{}
	for k := range s {
		o[k] = true
	}
	return o
}
func (s Set) equal(o Set) bool {
	if len(s) != len(o) {
		return false
	}
	for k := range s {
		if !o[k] {
			return false
		}
	}
	return true
}
func intersect(a, b Set) Set {
	o := Set{}
	for k := range a {
		if b[k] {
			o[k] = true
		}
	}
	return o
}
func union(a, b Set) Set {
	o := a.clone()
	for k := range b {
		o[k] = true
	}
	return o
}
func (s Set) Sorted() []string {
	var o []string
	for k := range s {
		o = append(o, k)
	}
	sort.Strings(o)
	return o
}

// Analysis holds the results.
type Analysis struct {
	P        *core.Prog
	fns      []*ssa.Function
	acq, rel map[*ssa.Function]string // wrapper summaries: function acquires / releases this mutex
	MustIn   map[*ssa.Function]Set    // locks definitely held on entry (all callers hold them)
	MayIn    map[*ssa.Function]Set
	mustAt   map[ssa.Instruction]Set
	mayAt    map[ssa.Instruction]Set
	Edges    map[[2]string]string // lock-order edges (held -> acquired) with one witness
	all      Set
	scope    func(*ssa.Function) bool
}

// MutexOf identifies the mutex whose address is v: "pkg.Type.field" for a field of a named struct,
// "g:pkg.name" for a package-level mutex, "" if unknown.
func MutexOf(v ssa.Value) string {
	switch x := v.(type) {
	case *ssa.FieldAddr:
		t := x.X.Type()
		if pt, ok := t.Underlying().(*types.Pointer); ok {
			t = pt.Elem()
		}
		if nt, ok := t.(*types.Named); ok && nt.Obj().Pkg() != nil {
			st, ok := nt.Underlying().(*types.Struct)
			if ok && x.Field < st.NumFields() {
				return core.Short(nt.Obj().Pkg().Path()) + "." + nt.Obj().Name() + "." + st.Field(x.Field).Name()
			}
		}
	case *ssa.Global:
		if x.Pkg != nil {
			return "g:" + core.Short(x.Pkg.Pkg.Path()) + "." + x.Name()
		}
	case *ssa.UnOp:
		return MutexOf(x.X)
	}
	return ""
}

func lockOp(ci ssa.CallInstruction) (mutex string, acquire bool, ok bool) {
	n := cfgx.CalleeName(ci)
	switch n {
	case "sync.(*Mutex).Lock", "sync.(*RWMutex).Lock", "sync.(*RWMutex).RLock":
		acquire = true
	case "sync.(*Mutex).Unlock", "sync.(*RWMutex).Unlock", "sync.(*RWMutex).RUnlock":
		acquire = false
	default:
		return "", false, false
	}
	args := ci.Common().Args
	if len(args) == 0 {
		return "", false, false
	}
	m := MutexOf(args[0])
	if m == "" {
		return "", false, false
	}
	return m, acquire, true
}

// New runs the analysis over the functions accepted by scope.
func New(p *core.Prog, scope func(*ssa.Function) bool) *Analysis {
	a := &Analysis{P: p, acq: map[*ssa.Function]string{}, rel: map[*ssa.Function]string{}, MustIn: map[*ssa.Function]Set{}, MayIn: map[*ssa.Function]Set{},
		mustAt: map[ssa.Instruction]Set{}, mayAt: map[ssa.Instruction]Set{}, Edges: map[[2]string]string{}, all: Set{}, scope: scope}
	for _, fn := range p.RepoFuncs() {
		if scope(fn) {
			a.fns = append(a.fns, fn)
		}
	}
	// wrapper summaries: a function whose only lock operation is one acquire (resp. release) of a field
	// of its receiver and that has no other calls is treated as that operation at its call sites.
	for _, fn := range a.fns {
		var ops []string
		other := 0
		for _, b := range fn.Blocks {
			for _, ins := range b.Instrs {
				ci, ok := ins.(ssa.CallInstruction)
				if !ok {
					continue
				}
				if _, isDefer := ins.(*ssa.Defer); isDefer {
					other++
					continue
				}
				if m, acq, ok := lockOp(ci); ok {
					if acq {
						ops = append(ops, "+"+m)
					} else {
						ops = append(ops, "-"+m)
					}
				} else {
					other++
				}
			}
		}
		if len(ops) == 1 && other == 0 && len(fn.Blocks) == 1 {
			if ops[0][0] == '+' {
				a.acq[fn] = ops[0][1:]
			} else {
				a.rel[fn] = ops[0][1:]
			}
		}
	}
	for _, fn := range a.fns {
		for _, b := range fn.Blocks {
			for _, ins := range b.Instrs {
				if ci, ok := ins.(ssa.CallInstruction); ok {
					if m, _, ok := a.op(ci); ok {
						a.all[m] = true
					}
				}
			}
		}
	}
	// Entry sets: propagate from roots (functions without an in-scope caller start with the empty set);
	// a function's must-set is the intersection over its VISITED callers' sets at the call sites.
	// Functions never reached from a root keep the empty set (no assumption).
	visited := map[*ssa.Function]bool{}
	for _, fn := range a.fns {
		a.MustIn[fn] = Set{}
		a.MayIn[fn] = Set{}
		if len(a.callersOf(fn)) == 0 {
			visited[fn] = true
		}
	}
	for iter := 0; iter < 60; iter++ {
		changed := false
		for _, fn := range a.fns {
			if visited[fn] {
				a.flow(fn)
			}
		}
		for _, fn := range a.fns {
			edges := a.callersOf(fn)
			if len(edges) == 0 {
				continue
			}
			var must Set
			may := Set{}
			any := false
			for _, e := range edges {
				if !visited[e.Caller.Func] {
					continue
				}
				any = true
				site := e.Site
				var hm, hy Set
				switch site.(type) {
				case *ssa.Go:
					hm, hy = Set{}, Set{}
				case *ssa.Defer:
					hm, hy = Set{}, a.mayAt[site]
				default:
					hm, hy = a.mustAt[site], a.mayAt[site]
				}
				if hm == nil {
					hm = Set{}
				}
				if must == nil {
					must = hm.clone()
				} else {
					must = intersect(must, hm)
				}
				may = union(may, hy)
			}
			if !any {
				continue
			}
			if !visited[fn] {
				visited[fn] = true
				changed = true
			}
			if !must.equal(a.MustIn[fn]) {
				a.MustIn[fn] = must
				changed = true
			}
			if !may.equal(a.MayIn[fn]) {
				a.MayIn[fn] = may
				changed = true
			}
		}
		if !changed {
			break
		}
	}
	for _, fn := range a.fns {
		a.flow(fn)
	}
	a.orderEdges()
	return a
}

// orderEdges: M1→M2 when a call site (or direct Lock) that may acquire M2 — directly or transitively
// through calls, not through `go` — executes while M1 is DEFINITELY held. Listener dispatch inside the
// event switch is not followed (the field-based call graph cannot separate per-event listener sets).
func (a *Analysis) orderEdges() {
	inScope := map[*ssa.Function]bool{}
	for _, fn := range a.fns {
		inScope[fn] = true
	}
	acq := map[*ssa.Function]Set{}
	for _, fn := range a.fns {
		acq[fn] = Set{}
	}
	skipDispatch := func(fn *ssa.Function, ci ssa.CallInstruction) bool {
		n := core.Short(core.FuncName(fn))
		return strings.HasPrefix(n, "gemmill/modules/go-events.") && ci.Common().StaticCallee() == nil
	}
	for changed := true; changed; {
		changed = false
		for _, fn := range a.fns {
			cur := acq[fn]
			before := len(cur)
			for _, b := range fn.Blocks {
				for _, ins := range b.Instrs {
					ci, ok := ins.(ssa.CallInstruction)
					if !ok {
						continue
					}
					if _, isGo := ins.(*ssa.Go); isGo {
						continue
					}
					if m, isAcq, ok := a.op(ci); ok {
						if isAcq {
							cur[m] = true
						}
						continue
					}
					if skipDispatch(fn, ci) {
						continue
					}
					for _, callee := range a.preciseCallees(ci) {
						if inScope[callee] {
							for m := range acq[callee] {
								cur[m] = true
							}
						}
					}
				}
			}
			if len(cur) != before {
				changed = true
			}
		}
	}
	for _, fn := range a.fns {
		for _, b := range fn.Blocks {
			for _, ins := range b.Instrs {
				ci, ok := ins.(ssa.CallInstruction)
				if !ok {
					continue
				}
				if _, isGo := ins.(*ssa.Go); isGo {
					continue
				}
				if _, isDefer := ins.(*ssa.Defer); isDefer {
					continue
				}
				held := a.mustAt[ins]
				if len(held) == 0 {
					continue
				}
				targets := Set{}
				if m, isAcq, ok := a.op(ci); ok {
					if isAcq {
						targets[m] = true
					}
				} else if !skipDispatch(fn, ci) {
					for _, callee := range a.preciseCallees(ci) {
						if inScope[callee] {
							for m := range acq[callee] {
								targets[m] = true
							}
						}
					}
				}
				for h := range held {
					for m := range targets {
						if h == m {
							continue
						}
						key := [2]string{h, m}
						if _, seen := a.Edges[key]; !seen {
							a.Edges[key] = fmt.Sprintf("%s: %s while holding %s (%s)", core.Short(core.FuncName(fn)), cfgx.CalleeName(ci), h, a.P.Pos(ins.Pos()))
						}
					}
				}
			}
		}
	}
}

func (a *Analysis) callersOf(fn *ssa.Function) []*callgraph.Edge {
	if a.P.CG == nil {
		return nil
	}
	n := a.P.CG.Nodes[fn]
	if n == nil {
		return nil
	}
	var out []*callgraph.Edge
	for _, e := range n.In {
		if e.Site == nil || e.Caller == nil || !a.scope(e.Caller.Func) {
			continue
		}
		out = append(out, e)
	}
	// closures: a closure created in f and invoked elsewhere is treated as called where it is created
	// only if it is called immediately; otherwise its callers are those found by the call graph.
	return out
}

// op: lock operation performed by a call instruction (directly or through a wrapper).
func (a *Analysis) op(ci ssa.CallInstruction) (string, bool, bool) {
	if m, acq, ok := lockOp(ci); ok {
		return m, acq, true
	}
	if callee := ci.Common().StaticCallee(); callee != nil {
		if m, ok := a.acq[callee]; ok {
			return m, true, true
		}
		if m, ok := a.rel[callee]; ok {
			return m, false, true
		}
	}
	return "", false, false
}

func (a *Analysis) flow(fn *ssa.Function) {
	n := len(fn.Blocks)
	if n == 0 {
		return
	}
	mustIn := make([]Set, n)
	mayIn := make([]Set, n)
	mustIn[0] = a.MustIn[fn].clone()
	mayIn[0] = a.MayIn[fn].clone()
	work := []int{0}
	inWork := map[int]bool{0: true}
	for len(work) > 0 {
		b := work[0]
		work = work[1:]
		inWork[b] = false
		must, may := mustIn[b].clone(), mayIn[b].clone()
		for _, ins := range fn.Blocks[b].Instrs {
			a.mustAt[ins] = must.clone()
			a.mayAt[ins] = may.clone()
			ci, ok := ins.(ssa.CallInstruction)
			if !ok {
				continue
			}
			if _, isDefer := ins.(*ssa.Defer); isDefer {
				continue // deferred unlock: held until exit
			}
			if _, isGo := ins.(*ssa.Go); isGo {
				continue
			}
			if m, acq, ok := a.op(ci); ok {
				if acq {
					must[m] = true
					may[m] = true
				} else {
					delete(must, m)
					delete(may, m)
				}
			}
		}
		for _, s := range fn.Blocks[b].Succs {
			i := s.Index
			if mustIn[i] == nil {
				mustIn[i], mayIn[i] = must.clone(), may.clone()
				if !inWork[i] {
					work = append(work, i)
					inWork[i] = true
				}
				continue
			}
			nm, ny := intersect(mustIn[i], must), union(mayIn[i], may)
			if !nm.equal(mustIn[i]) || !ny.equal(mayIn[i]) {
				mustIn[i], mayIn[i] = nm, ny
				if !inWork[i] {
					work = append(work, i)
					inWork[i] = true
				}
			}
		}
	}
}

// MustHeld returns the locks definitely held at an instruction.
func (a *Analysis) MustHeld(ins ssa.Instruction) Set {
	if s, ok := a.mustAt[ins]; ok {
		return s
	}
	return Set{}
}

// Cycles returns the elementary cycles (as sorted strings) of the lock-order graph.
func (a *Analysis) Cycles() []string {
	adj := map[string][]string{}
	for e := range a.Edges {
		adj[e[0]] = append(adj[e[0]], e[1])
	}
	for k := range adj {
		sort.Strings(adj[k])
	}
	var nodes []string
	for k := range adj {
		nodes = append(nodes, k)
	}
	sort.Strings(nodes)
	seen := map[string]bool{}
	var out []string
	var path []string
	onPath := map[string]bool{}
	var dfs func(u, start string)
	dfs = func(u, start string) {
		path = append(path, u)
		onPath[u] = true
		for _, v := range adj[u] {
			if v == start {
				cyc := append(append([]string{}, path...), start)
				// canonical form: rotate to smallest
				key := canon(cyc)
				if !seen[key] {
					seen[key] = true
					out = append(out, key)
				}
			} else if !onPath[v] && v > start {
				dfs(v, start)
			}
		}
		onPath[u] = false
		path = path[:len(path)-1]
	}
	for _, s := range nodes {
		dfs(s, s)
	}
	sort.Strings(out)
	return out
}

func canon(cyc []string) string {
	c := cyc[:len(cyc)-1]
	mi := 0
	for i := range c {
		if c[i] < c[mi] {
			mi = i
		}
	}
	r := append(append([]string{}, c[mi:]...), c[:mi]...)
	return strings.Join(append(r, r[0]), " → ")
}

// preciseCallees: static callee, or the single callee of a dynamic call. Calls that the field-based
// call graph resolves to several implementations (Service.OnStop, db.DB, net.Conn, listeners ...) are
// not followed by the lock-order rule: following them produced only infeasible edges on this code base.
func (a *Analysis) preciseCallees(ci ssa.CallInstruction) []*ssa.Function {
	if c := ci.Common().StaticCallee(); c != nil {
		return []*ssa.Function{c}
	}
	cs := a.P.Callees(ci)
	if len(cs) == 1 {
		return cs
	}
	return nil
}
