// Package taint: E3 (type-driven variant) — integers and pointers that are decoded from peer bytes
// and reach index / slice / allocation sinks or dereferences on goroutines without a recover.
//
// Sources are derived from types: a "peer type" is a struct type that go-wire decodes from the
// network (the concrete message types registered with wire.RegisterInterface in the reactor packages,
// plus everything reachable from them through exported fields). An integer value is TAINTED when its
// SSA expression tree contains a load of an exported integer field of a peer type. The heap is
// field-based: any object of a peer type is assumed attacker-built (locally built votes/proposals of
// the same type are over-approximated as tainted, which is sound for this rule).
package taint

import (
	"go/ast"
	"go/token"
	"go/types"
	"sort"
	"strings"

	"golang.org/x/tools/go/ssa"

	"annverif/cfgx"
	"annverif/core"
)

type Engine struct {
	P     *core.Prog
	Peer  map[string]bool // "pkg.Type" of peer struct types
	fnOf  func(*ssa.Function) *cfgx.Fn
	Scope map[*ssa.Function]bool
	// Trusted: expression fragments whose presence makes a load trusted (quorum-certified values,
	// fields that are only stored after validation); each entry is justified in the rule file.
	Trusted []string
	// Sanitizers: guard-string templates with %s for the bounded expression that bound it both ways.
	Sanitizers []string
	// TrustedFields: "pkg.Type.Field" — struct fields that are assigned only after validation.
	TrustedFields map[string]bool
}

func typeKey(t types.Type) string {
	if nt, ok := t.(*types.Named); ok && nt.Obj().Pkg() != nil {
		return core.Short(nt.Obj().Pkg().Path()) + "." + nt.Obj().Name()
	}
	return ""
}

// PeerTypes computes the closure of wire-registered concrete types in the given packages.
func PeerTypes(p *core.Prog, regPkgs []string, extra []string) map[string]bool {
	out := map[string]bool{}
	var add func(t types.Type)
	add = func(t types.Type) {
		switch x := t.(type) {
		case *types.Pointer:
			add(x.Elem())
			return
		case *types.Slice:
			add(x.Elem())
			return
		case *types.Array:
			add(x.Elem())
			return
		case *types.Named:
			k := typeKey(x)
			if k == "" || out[k] {
				return
			}
			if !strings.HasPrefix(x.Obj().Pkg().Path(), core.Mod) {
				return
			}
			st, ok := x.Underlying().(*types.Struct)
			if !ok {
				return
			}
			out[k] = true
			for i := 0; i < st.NumFields(); i++ {
				if st.Field(i).Exported() {
					add(st.Field(i).Type())
				}
			}
		}
	}
	for _, rel := range regPkgs {
		pk := p.Pkg(rel)
		if pk == nil {
			continue
		}
		for _, f := range pk.Syntax {
			ast.Inspect(f, func(n ast.Node) bool {
				call, ok := n.(*ast.CallExpr)
				if !ok {
					return true
				}
				sel, ok := call.Fun.(*ast.SelectorExpr)
				if !ok || sel.Sel.Name != "RegisterInterface" || len(call.Args) < 2 {
					return true
				}
				// only the reactors' network message interfaces (the WAL registration in the same package
				// describes local records)
				iface := types.ExprString(call.Args[0])
				if !(strings.Contains(iface, "ConsensusMessage") || strings.Contains(iface, "BlockchainMessage") || strings.Contains(iface, "MempoolMessage") ||
					strings.Contains(iface, "PexMessage") || strings.Contains(iface, "{Message}") || strings.Contains(iface, "{ Message }")) {
					return true
				}
				for _, a := range call.Args[1:] {
					cl, ok := a.(*ast.CompositeLit)
					if !ok || len(cl.Elts) == 0 {
						continue
					}
					e := cl.Elts[0]
					if kv, ok := e.(*ast.KeyValueExpr); ok {
						e = kv.Value
					}
					if tv, ok := pk.TypesInfo.Types[e]; ok {
						add(tv.Type)
					}
				}
				return true
			})
		}
	}
	for _, e := range extra {
		i := strings.LastIndex(e, ".")
		pk := p.Pkg(e[:i])
		if pk == nil {
			continue
		}
		if obj := pk.Types.Scope().Lookup(e[i+1:]); obj != nil {
			add(obj.Type())
		}
	}
	return out
}

func New(p *core.Prog, peer map[string]bool, fnOf func(*ssa.Function) *cfgx.Fn, scope map[*ssa.Function]bool) *Engine {
	return &Engine{P: p, Peer: peer, fnOf: fnOf, Scope: scope}
}

func isInt(t types.Type) bool {
	b, ok := t.Underlying().(*types.Basic)
	return ok && b.Info()&types.IsInteger != 0
}

func isUnsigned(t types.Type) bool {
	b, ok := t.Underlying().(*types.Basic)
	return ok && b.Info()&types.IsUnsigned != 0
}

// Origin of an integer operand.
type Origin struct {
	Taint  []string // rendered peer-field loads found in the expression (not rooted at a parameter object)
	Params []int    // integer parameters the expression depends on
	Paths  []PP     // peer-field loads rooted at a parameter object: the caller's guards may bound them
}

// PP: parameter index and field path (".BlockPartsHeader.Total") of a tainted load.
type PP struct {
	Param int
	Path  string
	Expr  string
}

// rootPath splits a field-load expression into its root value and the field path.
func rootPath(v ssa.Value) (ssa.Value, string) {
	path := ""
	for {
		switch x := v.(type) {
		case *ssa.UnOp:
			if x.Op != token.MUL {
				return v, path
			}
			v = x.X
		case *ssa.FieldAddr:
			path = "." + fieldNameOf(x.X.Type(), x.Field) + path
			v = x.X
		case *ssa.Field:
			path = "." + fieldNameOf(x.X.Type(), x.Field) + path
			v = x.X
		case *ssa.Alloc:
			// a spilled parameter / single-assignment local
			var val ssa.Value
			n := 0
			for _, r := range *x.Referrers() {
				if st, ok := r.(*ssa.Store); ok && st.Addr == ssa.Value(x) {
					n++
					val = st.Val
				}
			}
			if n == 1 {
				v = val
				continue
			}
			return v, path
		default:
			return v, path
		}
	}
}

func fieldNameOf(t types.Type, i int) string {
	if pt, ok := t.Underlying().(*types.Pointer); ok {
		t = pt.Elem()
	}
	if st, ok := t.Underlying().(*types.Struct); ok && i < st.NumFields() {
		return st.Field(i).Name()
	}
	return "?"
}

// Origins walks the expression tree of v.
func (e *Engine) Origins(v ssa.Value) Origin {
	var o Origin
	seen := map[ssa.Value]bool{}
	var walk func(v ssa.Value, d int)
	walk = func(v ssa.Value, d int) {
		if v == nil || seen[v] || d > 12 {
			return
		}
		seen[v] = true
		switch x := v.(type) {
		case *ssa.Parameter:
			for i, p := range x.Parent().Params {
				if p == x && isInt(x.Type()) {
					o.Params = append(o.Params, i)
				}
			}
		case *ssa.UnOp:
			if x.Op == token.MUL {
				if fa, ok := x.X.(*ssa.FieldAddr); ok {
					if e.peerField(fa.X.Type(), fa.Field) && isInt(x.Type()) {
						e.addTaint(&o, x)
						return
					}
				}
				// load of a local: follow its stores
				if al, ok := x.X.(*ssa.Alloc); ok {
					for _, r := range *al.Referrers() {
						if st, ok := r.(*ssa.Store); ok && st.Addr == ssa.Value(al) {
							walk(st.Val, d+1)
						}
					}
				}
				return
			}
			walk(x.X, d+1)
		case *ssa.Field:
			if e.peerField(x.X.Type(), x.Field) && isInt(x.Type()) {
				e.addTaint(&o, x)
				return
			}
		case *ssa.BinOp:
			switch x.Op {
			case token.ADD, token.SUB, token.MUL, token.QUO, token.SHL, token.SHR:
				walk(x.X, d+1)
				walk(x.Y, d+1)
			case token.REM, token.AND:
				// x % n and x & mask are bounded above by the right operand; sign remains
				walk(x.X, d+1)
			}
		case *ssa.Convert:
			walk(x.X, d+1)
		case *ssa.ChangeType:
			walk(x.X, d+1)
		case *ssa.Phi:
			for _, ed := range x.Edges {
				walk(ed, d+1)
			}
		}
	}
	walk(v, 0)
	sort.Strings(o.Taint)
	sort.Ints(o.Params)
	return o
}

// throughTrustedField: the access path of the load passes through a field that is only stored after
// validation (TrustedFields: "pkg.Type.Field").
func (e *Engine) throughTrustedField(v ssa.Value) bool {
	for i := 0; i < 12 && v != nil; i++ {
		switch x := v.(type) {
		case *ssa.UnOp:
			v = x.X
		case *ssa.FieldAddr:
			t := x.X.Type()
			if pt, ok := t.Underlying().(*types.Pointer); ok {
				t = pt.Elem()
			}
			if e.TrustedFields[typeKey(t)+"."+fieldNameOf(x.X.Type(), x.Field)] {
				return true
			}
			v = x.X
		case *ssa.Field:
			if e.TrustedFields[typeKey(x.X.Type())+"."+fieldNameOf(x.X.Type(), x.Field)] {
				return true
			}
			v = x.X
		default:
			return false
		}
	}
	return false
}

// addTaint classifies a tainted load: rooted at a parameter object (the caller may have bounded it),
// at a trusted producer (quorum-certified or validated-at-store), or fresh.
func (e *Engine) addTaint(o *Origin, load ssa.Value) {
	root, path := rootPath(load)
	expr := cfgx.Expr(load)
	for _, tr := range e.Trusted {
		if strings.Contains(expr, tr) {
			return
		}
	}
	if e.throughTrustedField(load) {
		return
	}
	if p, ok := root.(*ssa.Parameter); ok {
		for i, q := range p.Parent().Params {
			if q == p {
				o.Paths = append(o.Paths, PP{i, path, expr})
				return
			}
		}
	}
	o.Taint = append(o.Taint, expr)
}

func (e *Engine) peerField(t types.Type, field int) bool {
	if pt, ok := t.Underlying().(*types.Pointer); ok {
		t = pt.Elem()
	}
	nt, ok := t.(*types.Named)
	if !ok {
		return false
	}
	if !e.Peer[typeKey(nt)] {
		return false
	}
	st, ok := nt.Underlying().(*types.Struct)
	if !ok || field >= st.NumFields() {
		return false
	}
	return st.Field(field).Exported()
}

// Sink: an index / slice bound / allocation size operand.
type Sink struct {
	Fn   *cfgx.Fn
	Ins  ssa.Instruction
	Op   ssa.Value
	Kind string // "index", "slice-low", "slice-high", "make"
}

func (e *Engine) Sinks(f *cfgx.Fn) []Sink {
	var out []Sink
	for _, b := range f.F.Blocks {
		for _, ins := range b.Instrs {
			if !f.Live(ins) {
				continue
			}
			switch x := ins.(type) {
			case *ssa.IndexAddr:
				// indexing into maps is not a sink; IndexAddr is only slices/arrays
				out = append(out, Sink{f, ins, x.Index, "index"})
			case *ssa.Index:
				out = append(out, Sink{f, ins, x.Index, "index"})
			case *ssa.Slice:
				if x.Low != nil {
					out = append(out, Sink{f, ins, x.Low, "slice-low"})
				}
				if x.High != nil {
					out = append(out, Sink{f, ins, x.High, "slice-high"})
				}
			case *ssa.MakeSlice:
				out = append(out, Sink{f, ins, x.Len, "make"})
			case *ssa.MakeChan:
				out = append(out, Sink{f, ins, x.Size, "make"})
			}
		}
	}
	return out
}

// Bounds reports whether the guards of ins bound the value from below and above.
// Unsigned values are bounded below by their type.
func (e *Engine) Bounds(f *cfgx.Fn, ins ssa.Instruction, v ssa.Value) (lower, upper bool) {
	return e.BoundsExpr(f, ins, boundExprs(v), isUnsigned(v.Type()))
}

func (e *Engine) BoundsExpr(f *cfgx.Fn, ins ssa.Instruction, exprs []string, unsigned bool) (lower, upper bool) {
	lower = unsigned
	for _, g := range f.AllGuardForms(ins) {
		for _, ex := range exprs {
			if strings.HasPrefix(g, "("+ex+" >= ") || strings.HasPrefix(g, "("+ex+" > ") {
				rhs := strings.TrimSuffix(strings.SplitN(g, " ", 3)[2], ")")
				if rhs == "0" || rhs == "-1" && strings.HasPrefix(g, "("+ex+" > ") || isPosConst(rhs) {
					lower = true
				}
			}
			if strings.HasPrefix(g, "("+ex+" < ") || strings.HasPrefix(g, "("+ex+" <= ") {
				upper = true
			}
			if strings.HasPrefix(g, "("+ex+" == ") {
				// equality with a value the code controls pins it
				lower, upper = true, true
			}
			for _, sn := range e.Sanitizers {
				if strings.Contains(g, strings.ReplaceAll(sn, "%s", ex)) && !strings.HasPrefix(g, "!") {
					lower, upper = true, true
				}
			}
		}
	}
	return
}

func isPosConst(s string) bool {
	if s == "" {
		return false
	}
	for _, c := range s {
		if c < '0' || c > '9' {
			return false
		}
	}
	return true
}

// boundExprs: renderings under which a guard may mention the value: the value itself and, for simple
// arithmetic `x + c` / `x - c` / conversions, the inner x (a bound on x bounds x±c up to the constant).
func boundExprs(v ssa.Value) []string {
	out := []string{cfgx.Expr(v)}
	switch x := v.(type) {
	case *ssa.Convert:
		out = append(out, boundExprs(x.X)...)
	case *ssa.BinOp:
		if _, ok := x.Y.(*ssa.Const); ok && (x.Op == token.ADD || x.Op == token.SUB) {
			out = append(out, boundExprs(x.X)...)
		}
	}
	return out
}

// Finding of the bounds rule.
type Finding struct {
	Fn      *cfgx.Fn
	Ins     ssa.Instruction
	Kind    string
	Operand string
	Taint   []string
	Missing string   // "lower", "upper", "lower+upper"
	Via     []string // call chain when the taint arrives through parameters
}

// ParamNeed: parameter i of fn reaches a sink with these bounds missing locally.
type need struct {
	fn      *ssa.Function
	param   int
	path    string // "" for an integer parameter, else the field path below the parameter object
	lower   bool   // lower bound missing
	upper   bool
	sinkPos string
	kind    string
}

// CheckBounds runs the rule over the scope.
func (e *Engine) CheckBounds() (findings []Finding, sinksSeen, taintedSinks int) {
	var needs []need
	for fn := range e.Scope {
		if fn.Blocks == nil {
			continue
		}
		f := e.fnOf(fn)
		for _, s := range e.Sinks(f) {
			sinksSeen++
			if _, isConst := s.Op.(*ssa.Const); isConst {
				continue
			}
			o := e.Origins(s.Op)
			if len(o.Taint) == 0 && len(o.Params) == 0 && len(o.Paths) == 0 {
				continue
			}
			lo, up := e.Bounds(f, s.Ins, s.Op)
			if s.Kind == "slice-low" {
				// a[low:high] panics for low<0 or low>high; treat as index
			}
			if lo && up {
				continue
			}
			if len(o.Taint) > 0 {
				taintedSinks++
				findings = append(findings, Finding{f, s.Ins, s.Kind, cfgx.Expr(s.Op), o.Taint, missing(lo, up), nil})
			}
			for _, pi := range o.Params {
				// guards on the parameter itself inside the callee
				plo, pup := e.Bounds(f, s.Ins, fn.Params[pi])
				if (lo || plo) && (up || pup) {
					continue
				}
				needs = append(needs, need{fn, pi, "", !(lo || plo), !(up || pup), e.P.Pos(s.Ins.Pos()), s.Kind})
			}
			for _, pp := range o.Paths {
				plo, pup := e.BoundsExpr(f, s.Ins, []string{pp.Expr}, false)
				if (lo || plo) && (up || pup) {
					continue
				}
				needs = append(needs, need{fn, pp.Param, pp.Path, !(lo || plo), !(up || pup), e.P.Pos(s.Ins.Pos()), s.Kind})
			}
		}
	}
	// propagate needs to callers (depth 4)
	type key struct {
		fn   *ssa.Function
		p    int
		path string
		lo   bool
		up   bool
	}
	done := map[key]bool{}
	work := needs
	for depth := 0; depth < 6 && len(work) > 0; depth++ {
		var next []need
		for _, nd := range work {
			k := key{nd.fn, nd.param, nd.path, nd.lower, nd.upper}
			if done[k] {
				continue
			}
			done[k] = true
			for _, edge := range e.P.Callers(nd.fn) {
				caller := edge.Caller.Func
				if !e.Scope[caller] || caller.Blocks == nil || edge.Site == nil {
					continue
				}
				cc := edge.Site.Common()
				idx := nd.param
				if cc.IsInvoke() {
					idx-- // receiver is not in Args
				}
				if idx < 0 || idx >= len(cc.Args) {
					continue
				}
				arg := cc.Args[idx]
				if _, isConst := arg.(*ssa.Const); isConst {
					continue
				}
				cf := e.fnOf(caller)
				if nd.path != "" {
					// object parameter: the bounded expression at the caller is <arg><path>
					full := cfgx.Expr(arg) + nd.path
					trusted := false
					for _, tr := range e.Trusted {
						if strings.Contains(full, tr) {
							trusted = true
						}
					}
					if trusted || e.throughTrustedField(arg) {
						continue
					}
					lo, up := e.BoundsExpr(cf, edge.Site, []string{full}, false)
					stillLo, stillUp := nd.lower && !lo, nd.upper && !up
					if !stillLo && !stillUp {
						continue
					}
					root, rp := rootPath(arg)
					if p, ok := root.(*ssa.Parameter); ok {
						for i, q := range caller.Params {
							if q == p {
								next = append(next, need{caller, i, rp + nd.path, stillLo, stillUp, nd.sinkPos, nd.kind})
							}
						}
						continue
					}
					taintedSinks++
					findings = append(findings, Finding{cf, edge.Site, nd.kind + " (in " + core.Short(core.FuncName(nd.fn)) + " at " + nd.sinkPos + ")", full, []string{full}, missing(!stillLo, !stillUp),
						[]string{core.Short(core.FuncName(caller)) + " → " + core.Short(core.FuncName(nd.fn))}})
					continue
				}
				o := e.Origins(arg)
				lo, up := e.Bounds(cf, edge.Site, arg)
				stillLo, stillUp := nd.lower && !lo, nd.upper && !up
				if !stillLo && !stillUp {
					continue
				}
				if len(o.Taint) > 0 {
					taintedSinks++
					findings = append(findings, Finding{cf, edge.Site, nd.kind + " (in " + core.Short(core.FuncName(nd.fn)) + " at " + nd.sinkPos + ")", cfgx.Expr(arg), o.Taint, missing(!stillLo, !stillUp),
						[]string{core.Short(core.FuncName(caller)) + " → " + core.Short(core.FuncName(nd.fn))}})
				}
				for _, pi := range o.Params {
					plo, pup := e.Bounds(cf, edge.Site, caller.Params[pi])
					if (!stillLo || plo) && (!stillUp || pup) {
						continue
					}
					next = append(next, need{caller, pi, "", stillLo && !plo, stillUp && !pup, nd.sinkPos, nd.kind})
				}
				for _, pp := range o.Paths {
					plo, pup := e.BoundsExpr(cf, edge.Site, []string{pp.Expr}, false)
					if (!stillLo || plo) && (!stillUp || pup) {
						continue
					}
					next = append(next, need{caller, pp.Param, pp.Path, stillLo && !plo, stillUp && !pup, nd.sinkPos, nd.kind})
				}
			}
		}
		work = next
	}
	sort.Slice(findings, func(i, j int) bool {
		a, b := findings[i], findings[j]
		if core.FuncName(a.Fn.F) != core.FuncName(b.Fn.F) {
			return core.FuncName(a.Fn.F) < core.FuncName(b.Fn.F)
		}
		return a.Operand < b.Operand
	})
	return
}

func missing(lo, up bool) string {
	switch {
	case !lo && !up:
		return "lower+upper"
	case !lo:
		return "lower"
	}
	return "upper"
}

// PanicFinding: a no-return call or panic whose guard chain depends on peer-controlled data.
type PanicFinding struct {
	Fn    *cfgx.Fn
	Ins   ssa.Instruction
	Guard string
	Taint []string
}

// CheckPanics lists explicit panics (panic(), no-return helpers) in scope that are edge-dominated by
// a condition over peer-controlled integers/lengths or nil-ness of peer objects.
func (e *Engine) CheckPanics(nr *cfgx.NoRet) (out []PanicFinding, examined int) {
	for fn := range e.Scope {
		if fn.Blocks == nil {
			continue
		}
		f := e.fnOf(fn)
		for _, b := range fn.Blocks {
			for _, ins := range b.Instrs {
				isPanic := false
				if _, ok := ins.(*ssa.Panic); ok {
					isPanic = true
				} else if nr.IsNoRetCall(ins) {
					isPanic = true
				}
				if !isPanic || !f.Live(ins) {
					continue
				}
				examined++
				for _, g := range f.Guards(ins) {
					// only the condition that directly selects the panic (the If whose edge enters the panic's
					// block, possibly through single-predecessor blocks) is its trigger; guards further up
					// merely had to pass
					if !directlyEnters(g.If.Block(), b) {
						continue
					}
					var ts []string
					var walk func(v ssa.Value, d int)
					walk = func(v ssa.Value, d int) {
						if d > 6 || v == nil {
							return
						}
						switch x := v.(type) {
						case *ssa.BinOp:
							walk(x.X, d+1)
							walk(x.Y, d+1)
						case *ssa.UnOp:
							if x.Op == token.NOT {
								walk(x.X, d+1)
								return
							}
							o := e.Origins(v)
							ts = append(ts, o.Taint...)
							for _, pp := range o.Paths {
								ts = append(ts, pp.Expr)
							}
						case *ssa.Call:
							// len(peer slice) is peer-chosen too
							if bi, ok := x.Call.Value.(*ssa.Builtin); ok && bi.Name() == "len" && len(x.Call.Args) == 1 {
								if ld, ok := x.Call.Args[0].(*ssa.UnOp); ok {
									if fa, ok := ld.X.(*ssa.FieldAddr); ok && e.peerField(fa.X.Type(), fa.Field) {
										ts = append(ts, cfgx.Expr(x))
									}
								}
							}
						default:
							o := e.Origins(v)
							ts = append(ts, o.Taint...)
							for _, pp := range o.Paths {
								ts = append(ts, pp.Expr)
							}
						}
					}
					walk(g.Cond, 0)
					if len(ts) > 0 {
						sort.Strings(ts)
						out = append(out, PanicFinding{f, ins, cfgx.GuardString(g), ts})
						break
					}
				}
			}
		}
	}
	sort.Slice(out, func(i, j int) bool {
		a, b := out[i], out[j]
		if core.FuncName(a.Fn.F) != core.FuncName(b.Fn.F) {
			return core.FuncName(a.Fn.F) < core.FuncName(b.Fn.F)
		}
		return a.Guard < b.Guard
	})
	return
}

func directlyEnters(from, to *ssa.BasicBlock) bool {
	cur := to
	for i := 0; i < 4; i++ {
		for _, p := range cur.Preds {
			if p == from {
				return true
			}
		}
		if len(cur.Preds) != 1 {
			return false
		}
		cur = cur.Preds[0]
	}
	return false
}
