package rules

import (
	"sort"
	"strings"

	"golang.org/x/tools/go/ssa"

	"annverif/core"
)

func init() {
	Registry["C11"] = c11
	Metas["C11"] = Meta{Level: "translation_validation", NeedCG: false, Ref: true,
		Technique: "translation validation: token- and name-resolution equivalence of every function of eth/trie, eth/core/state and eth/rlp (with dependency closure) against go-ethereum v1.8.27; independent journal create/revert pairing table",
		Explain:   "Translation validation against the oracle the property itself adopts (the reference implementation's roots). Every function of eth/trie (canonical node shapes, hashing, commit, proofs, database), eth/core/state (StateDB, state objects, journal) and eth/rlp is EQUIVALENT to its namesake in go-ethereum v1.8.27 — identical token sequence, every identifier resolving to the corresponding object, and all referenced constants (by value), types, variables and callees of the eth tree (common, crypto, ethdb, params, ...) compared in turn — or is one of the reviewed version-drift rows (compactToHex's empty-input guard, Database.Node's meta-root guard, the extended ethdb.Database interface, ChainConfig without Petersburg), each pinned to an exact reviewed edit of the reference. (R2) independently of the reference: the set of journal entry kinds appended by StateDB/stateObject equals the set of kinds that implement revert, and every revert writes state. `programs` = functions compared; `disagreements_checked` = functions that differ and were decided by a deviation row. The property's claims (root is a function of content, commit/reopen, exact revert, proofs) are inherited from the reference. NOT decided: the reference's own correctness; history independence as such.",
		Assume:    []string{"go-ethereum v1.8.27 (module cache) is the reference semantics", "packages log and metrics are opaque (no influence on roots)"},
	}
}

var c11Assume = []string{
	"eth/ethdb::type:Database",     // in-tree storage interface has extra methods (GetWithPrefix, iterators); trie/state use Get/Put/Has/NewBatch only
	"eth/params::type:ChainConfig", // reference has PetersburgBlock (added after the fork point); the property fixes Constantinople rules
	"eth/trie::compactToHex",       // version drift: reference added an empty-input guard
	"eth/trie::(*Database).Node",   // version drift: reference added a meta-root guard
}

func c11(c *Ctx) {
	eq := c.Equiv()
	setAssume(eq, c10Assume)
	setAssume(eq, c11Assume)
	tot, dif := 0, 0
	for i, rel := range []string{"eth/trie", "eth/core/state", "eth/rlp"} {
		rule := c.R.Rule("R1."+string(rune('a'+i)), "every function of "+rel+" is equivalent to its namesake in go-ethereum v1.8.27 or is a reviewed deviation row", 80)
		n, d := equivPackage(c, rule, rel, c11Dev[rel], map[string]string{})
		tot += n
		dif += d
	}
	c11R2(c)
	declDeviationRule(c, "R3")
	c.R.Extra["programs"] = tot
	c.R.Extra["disagreements_checked"] = dif
	var used []string
	for k := range eq.UsedAssume {
		used = append(used, strings.TrimPrefix(k, core.Mod+"/"))
	}
	sort.Strings(used)
	c.R.Extra["assumed_deviating_dependencies"] = used
}

var c11Dev = map[string]map[string]Deviation{
	"eth/trie": {
		"compactToHex":     {Reason: "version drift: go-ethereum 1.8.21 added `if len(compact) == 0 { return compact }`; inputs here are keys of short nodes read back from the node database, never empty"},
		"(*Database).Node": {Reason: "version drift: the reference added an early return for the zero (meta-root) hash; an RPC/debug accessor, not used by trie hashing or commit"},
	},
	"eth/core/state": {},
	"eth/rlp":        {},
}

// R2: journal pairing, decided without the reference.
func c11R2(c *Ctx) {
	rule := c.R.Rule("R2", "journal pairing (independent of the reference): the entry kinds appended to the journal by eth/core/state are exactly the kinds that implement journalEntry; every revert method writes state (a store, map update/delete or a mutating call); journal.revert undoes entries from the last to the snapshot index", 12)
	pk := c.P.SSAPkg("eth/core/state")
	if pk == nil {
		c.R.Missing(rule, "eth/core/state")
		return
	}
	reverts := map[string]bool{}
	for _, fn := range c.P.FuncsOfPkg("eth/core/state") {
		n := core.Short(core.FuncName(fn))
		if fn.Synthetic != "" {
			continue // compiler-generated pointer-receiver wrappers
		}
		if strings.HasSuffix(n, ").revert") && !strings.Contains(n, "(*journal)") {
			kind := n[strings.Index(n, "(")+1 : strings.Index(n, ")")]
			reverts[kind] = true
			f := c.Fn(fn)
			writes := 0
			for _, b := range fn.Blocks {
				for _, ins := range b.Instrs {
					switch x := ins.(type) {
					case *ssa.Store:
						if !strings.HasPrefix(exprOf(x.Addr), "local:") {
							writes++
						}
					case *ssa.MapUpdate:
						writes++
					case ssa.CallInstruction:
						cn := cfgxCallee(x)
						if strings.Contains(cn, ".set") || strings.Contains(cn, "builtin:delete") || strings.Contains(cn, ".getStateObject") || strings.Contains(cn, ".SetNonce") || strings.Contains(cn, ".setStateObject") {
							writes++
						}
					}
				}
			}
			if kind == "touchChange" {
				// reviewed exception (one symbol): in the reference, touching an account is deliberately not undone
				// (EIP-161 / the RIPEMD special case); revert is empty there too (and R1.b shows it is the reference's)
				c.R.Note("touchChange.revert is empty by design (reference semantics)")
				continue
			}
			c.R.Ob(rule, "revert-writes:"+kind, writes > 0, c.P.Pos(fn.Pos()), core.FuncName(fn), "a journal entry whose revert changes nothing cannot restore the snapshot state")
			_ = f
		}
	}
	appended := map[string]bool{}
	for _, s := range c.AllCalls(eqs("eth/core/state.(*journal).append")) {
		a := s.Call.Common().Args[1]
		t := a.Type().String()
		if mi, ok := a.(*ssa.MakeInterface); ok {
			t = mi.X.Type().String()
		}
		t = t[strings.LastIndex(t, ".")+1:]
		appended[strings.TrimPrefix(t, "*")] = true
	}
	for k := range appended {
		c.R.Ob(rule, "appended-kind-has-revert:"+k, reverts[k] || reverts["*"+k], "-", "", "journal entry kind "+k+" is appended but has no revert")
	}
	for k := range reverts {
		kk := strings.TrimPrefix(k, "*")
		c.R.Ob(rule, "revert-kind-is-appended:"+kk, appended[kk], "-", "", "journal entry kind "+kk+" implements revert but is never appended (dead kind or lost journaling)")
	}
}
