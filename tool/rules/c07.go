package rules

import (
	"fmt"
	"strings"

	"golang.org/x/tools/go/ssa"

	"annverif/cfgx"
	"annverif/core"
)

func init() {
	Registry["C07"] = c07
	Metas["C07"] = Meta{Level: "other", NeedCG: true,
		Technique: "static analysis: dominance of log-before-handle on every input arm, must-pass-through of the flush on all paths of the WAL writer, replay-hygiene ordering rules, identity of the replayed record with the logged one",
		Explain:   "Crash points and byte-level truncation of the log cannot be enumerated statically. Decided: (R1) in receiveRoutine each of the three inputs is written to the WAL before it is handled, and the handled value is the logged one; (R2) WAL.Save/writeHeight flush after every record and a write/flush error is fatal (never silently dropped); the light-mode early return precedes any write; (R3) the height marker is written before the NewHeight record; every step is logged unconditionally by newStep (the only writer of the next height's marker); (R4) replay hygiene: replayMode brackets catchupReplay, the decode error is tested before the record is used, the logged record (with its peer key) is re-handled unchanged, failures return errors instead of panicking, and replay completes before the receive routine starts; (R5) a refused signature during replay is tolerated (shared with C03-R4). (R6) a restart rebuilds LastCommit from the stored seen commit over state.LastValidators and installs it only with +2/3. (R7) the WAL reader returns records of any length (growing read). (R11) Group.Search keeps looking in the older files when the newer ones hold no marker (a height that spans a rotation is still found). NOT decided: torn last line, truncation at arbitrary byte offsets, equality of the restored state with the pre-crash state.",
		Assume:    []string{"go-autofile Group.Flush reports a sticky write error", "the signer refuses conflicting signatures (C03)"},
	}
}

const walT = "gemmill/consensus/pbft.(*WAL)"

func c07(c *Ctx) {
	c07R1(c)
	c07R2(c)
	c07R3(c)
	c07R4(c)
	signTolerantRule(c, "R5")
	c07R6(c)
	c07R7(c)
	c07R8(c)
	replayAllLinesRule(c, "R9")
	replayVotesRule(c, "R10")
	c07R11(c)
	c07R12(c)
	shared(c, "C06", c06R1)
}

func c07R1(c *Ctx) {
	rule := c.R.Rule("R1", "log before handle: in receiveRoutine every handleMsg/handleTimeout call is dominated by cs.wal.Save of the same value; there are three such arms (peer queue, internal queue, timeout)", 3)
	f := c.Anchor(rule, csT+".receiveRoutine")
	if f == nil {
		return
	}
	saves := f.CallsTo(cfgx.Named(walT + ".Save"))
	n := 0
	for _, h := range f.CallsTo(cfgx.Named(csT+".handleMsg", csT+".handleTimeout")) {
		n++
		val := callArg(h, 1)
		ok := false
		for _, s := range saves {
			if callArg(s, 1) == val && callArg(s, 0) == "a0.wal" && f.Dominates(s, h) {
				ok = true
			}
		}
		c.R.Ob(rule, "arm:"+shortCallee(h)+"("+val+")", ok, c.Pos(h), fname(f), "input "+val+" is handled without having been written to the WAL first: a crash after handling loses it")
	}
	if n < 3 {
		c.R.Undecided(rule, "arms", c.P.Pos(f.F.Pos()), fname(f), "expected three handling arms")
	}
	// handleMsg / handleTimeout are entered only from receiveRoutine and replay
	for _, s := range c.AllCalls(cfgx.Named(csT+".handleMsg", csT+".handleTimeout")) {
		caller := core.Short(fname(s.Fn))
		ok := caller == csT+".receiveRoutine" || caller == csT+".readReplayMessage"
		c.R.Ob(rule, "handler-caller:"+caller, ok, c.Pos(s.Call), fname(s.Fn), "state-changing handlers may run only from the logging receive loop or from WAL replay")
	}
}

func c07R2(c *Ctx) {
	rule := c.R.Rule("R2", "flush per record: in WAL.Save and writeHeight every normal return after a WriteLine is edge-dominated by Flush()==nil (and in Save by WriteLine==nil); errors reach the fatal PanicQ; returns not preceded by a write happen before any write", 5)
	wl := cfgx.Named("gemmill/modules/go-autofile.(*Group).WriteLine")
	fl := cfgx.Named("gemmill/modules/go-autofile.(*Group).Flush")
	for _, name := range []string{walT + ".Save", walT + ".writeHeight"} {
		f := c.Anchor(rule, name)
		if f == nil {
			continue
		}
		writes := f.CallsTo(wl)
		flushes := f.CallsTo(fl)
		if len(writes) != 1 || len(flushes) != 1 {
			c.R.Undecided(rule, core.Short(name)+":sites", c.P.Pos(f.F.Pos()), fname(f), "expected one WriteLine and one Flush")
			continue
		}
		w, fls := writes[0], flushes[0]
		c.R.Ob(rule, core.Short(name)+":write≺flush", f.Dominates(w, fls), c.Pos(fls), fname(f), "the flush must follow the write")
		for _, r := range f.Returns() {
			if f.Reaches(w, r) {
				ok := f.HasGuard(r, cfgx.Equals("("+cfgx.Expr(fls.(*ssa.Call))+" == nil)")) && f.Dominates(fls, r)
				c.R.Ob(rule, core.Short(name)+":return-after-write⊣flushed", ok, c.Pos(r), fname(f), "a record may be acknowledged only after Flush() succeeded; "+guardsText(f, r))
				if name == walT+".Save" {
					c.R.Ob(rule, "Save:return-after-write⊣write-ok", f.HasGuard(r, cfgx.Equals("("+cfgx.Expr(w.(*ssa.Call))+" == nil)")), c.Pos(r), fname(f), "a WriteLine error must be fatal")
				}
			}
		}
		// fatal on error
		for _, ci := range f.Calls() {
			if c.NR.IsNoRetCall(ci) {
				ok := f.HasGuard(ci, func(g string) bool { return strings.HasSuffix(g, " != nil)") })
				c.R.Ob(rule, core.Short(name)+":fatal-only-on-error", ok, c.Pos(ci), fname(f), "PanicQ must be guarded by a write/flush error")
			}
		}
	}
}

func c07R3(c *Ctx) {
	rule := c.R.Rule("R3", "height marker first, steps always logged: in WAL.Save writeHeight (under Step==NewHeight of an EventDataRoundState) precedes the record's WriteLine and is never after it; newStep calls wal.Save(rs) unconditionally; updateToState ends with newStep", 4)
	if f := c.Anchor(rule, walT+".Save"); f != nil {
		wh := f.CallsTo(cfgx.Named(walT + ".writeHeight"))
		wl := f.CallsTo(cfgx.Named("gemmill/modules/go-autofile.(*Group).WriteLine"))
		ok := len(wh) == 1 && len(wl) == 1 && f.Reaches(wh[0], wl[0]) && !f.Reaches(wl[0], wh[0])
		c.R.Ob(rule, "Save:writeHeight≺WriteLine", ok, c.P.Pos(f.F.Pos()), fname(f), "the #HEIGHT marker must precede the NewHeight step record, or replay starts after it")
		if len(wh) == 1 {
			okg := f.HasGuard(wh[0], func(g string) bool {
				return strings.Contains(g, "EventDataRoundState)#0.Step == gemmill/consensus/pbft.(RoundStepType).String(1))")
			})
			c.R.Ob(rule, "Save:writeHeight⊣NewHeight-step", okg, c.Pos(wh[0]), fname(f), "marker written exactly for NewHeight step records; "+guardsText(f, wh[0]))
			c.R.Ob(rule, "Save:writeHeight-arg", strings.HasSuffix(callArg(wh[0], 1), "EventDataRoundState)#0.Height"), c.Pos(wh[0]), fname(f), "marker height must be the step record's height")
		}
	}
	if f := c.Anchor(rule, csT+".newStep"); f != nil {
		sv := f.CallsTo(cfgx.Named(walT + ".Save"))
		ok := len(sv) == 1 && len(f.Guards(sv[0])) == 0 && callArg(sv[0], 0) == "a0.wal"
		d := ""
		if len(sv) == 1 {
			d = guardsText(f, sv[0])
		}
		c.R.Ob(rule, "newStep:Save-unconditional", ok, c.P.Pos(f.F.Pos()), fname(f), "every step (also during replay) must reach the WAL: Save of a NewHeight step is the only writer of the next height's marker; "+d)
	}
	if f := c.Anchor(rule, csT+".updateToState"); f != nil {
		ns := f.CallsTo(cfgx.Named(csT + ".newStep"))
		st := f.FieldStores("gemmill/consensus/pbft.ConsensusState", "state")
		ok := len(ns) == 1 && len(st) == 1 && f.Dominates(st[0], ns[0])
		c.R.Ob(rule, "updateToState:newStep-after-state", ok, c.P.Pos(f.F.Pos()), fname(f), "the NewHeight step must be announced (and logged) after the state was switched")
	}
}

func c07R4(c *Ctx) {
	rule := c.R.Rule("R4", "replay hygiene: catchupReplay sets replayMode before the first readReplayMessage and resets it in a deferred closure; readReplayMessage tests the decode error before using the record, re-handles the logged msgInfo/timeoutInfo unchanged, and contains no no-return call; OnStart runs catchupReplay before `go receiveRoutine`", 7)
	if f := c.Anchor(rule, csT+".catchupReplay"); f != nil {
		var setTrue *ssa.Store
		for _, st := range f.FieldStores("gemmill/consensus/pbft.ConsensusState", "replayMode") {
			if cfgx.Expr(st.Val) == "true" {
				setTrue = st
			}
		}
		ok := setTrue != nil
		for _, ci := range f.CallsTo(cfgx.Named(csT + ".readReplayMessage")) {
			if setTrue == nil || !f.Dominates(setTrue, ci) {
				ok = false
			}
		}
		c.R.Ob(rule, "catchupReplay:replayMode-set-first", ok, c.P.Pos(f.F.Pos()), fname(f), "replayMode=true must dominate every replayed record")
		reset := false
		for _, an := range f.F.AnonFuncs {
			af := c.Fn(an)
			for _, st := range af.FieldStores("gemmill/consensus/pbft.ConsensusState", "replayMode") {
				if cfgx.Expr(st.Val) == "false" {
					// closure must be deferred after the set
					for _, b := range f.F.Blocks {
						for _, ins := range b.Instrs {
							if d, isD := ins.(*ssa.Defer); isD && strings.HasSuffix(cfgx.CalleeName(d), core.Short(core.FuncName(an))) && setTrue != nil && f.Dominates(setTrue, d) {
								reset = true
							}
						}
					}
				}
			}
		}
		c.R.Ob(rule, "catchupReplay:replayMode-reset-deferred", reset, c.P.Pos(f.F.Pos()), fname(f), "replayMode must be reset on every exit (deferred)")
		noFatal := true
		for _, ci := range f.Calls() {
			if c.NR.IsNoRetCall(ci) {
				noFatal = false
			}
		}
		c.R.Ob(rule, "catchupReplay:no-fatal", noFatal, c.P.Pos(f.F.Pos()), fname(f), "replay failures must be returned, not panic")
	}
	if f := c.Anchor(rule, csT+".readReplayMessage"); f != nil {
		rj := f.CallsTo(cfgx.Named("gemmill/go-wire.ReadJSON"))
		okSite := len(rj) == 1
		c.R.Ob(rule, "readReplayMessage:decode-site", okSite, c.P.Pos(f.F.Pos()), fname(f), "one ReadJSON of the record expected")
		n := 0
		for _, h := range f.CallsTo(cfgx.Named(csT+".handleMsg", csT+".handleTimeout")) {
			n++
			// decode error tested: the handler is guarded by `err == nil` where err is the local passed to ReadJSON
			okErr := f.HasGuard(h, func(g string) bool { return g == "(local:err == nil)" })
			c.R.Ob(rule, "readReplayMessage:"+shortCallee(h)+"⊣decode-ok", okErr, c.Pos(h), fname(f), "the decoded record is used without testing the decode error; "+guardsText(f, h))
			arg := callArg(h, 1)
			okArg := strings.HasPrefix(arg, "local:msg.Msg.(") && strings.HasSuffix(arg, ")#0")
			c.R.Ob(rule, "readReplayMessage:"+shortCallee(h)+":replays-logged-record", okArg, c.Pos(h), fname(f), "the record must be re-handled exactly as logged (including its peer key); got "+shorten(arg))
			c.R.Ob(rule, "readReplayMessage:"+shortCallee(h)+":current-round-state", callArg(h, 2) == "a0.RoundState", c.Pos(h), fname(f), "handlers take the current round state")
		}
		if n < 2 {
			c.R.Undecided(rule, "readReplayMessage:handlers", c.P.Pos(f.F.Pos()), fname(f), "expected handleMsg and handleTimeout")
		}
		noFatal := true
		for _, ci := range f.Calls() {
			if c.NR.IsNoRetCall(ci) {
				noFatal = false
			}
		}
		c.R.Ob(rule, "readReplayMessage:no-fatal", noFatal, c.P.Pos(f.F.Pos()), fname(f), "a bad record must produce an error return")
	}
	if f := c.Anchor(rule, csT+".OnStart"); f != nil {
		cr := f.CallsTo(cfgx.Named(csT + ".catchupReplay"))
		var goRecv ssa.Instruction
		for _, b := range f.F.Blocks {
			for _, ins := range b.Instrs {
				if g, ok := ins.(*ssa.Go); ok && cfgx.CalleeName(g) == csT+".receiveRoutine" {
					goRecv = g
				}
			}
		}
		ok := len(cr) == 1 && goRecv != nil && f.Dominates(cr[0], goRecv) && callArg(cr[0], 1) == "a0.RoundState.Height"
		c.R.Ob(rule, "OnStart:replay≺receiveRoutine", ok, c.P.Pos(f.F.Pos()), fname(f), "WAL replay of the current height must complete before the receive routine starts consuming live input")
		// ticker started before replay (replay schedules timeouts on tickChan)
		tk := f.CallsTo(cfgx.Named("iface:gemmill/consensus/pbft.TimeoutTicker.Start"))
		c.R.Ob(rule, "OnStart:ticker≺replay", len(tk) == 1 && len(cr) == 1 && f.Dominates(tk[0], cr[0]), c.P.Pos(f.F.Pos()), fname(f), "the ticker must run during replay or scheduleTimeout blocks on tickChan")
	}
}

// c07R6: what a restart rebuilds besides the WAL replay.
func c07R6(c *Ctx) {
	rule := c.R.Rule("R6", "restart reconstruction: reconstructLastCommit rebuilds cs.LastCommit from the stored seen-commit of state.LastBlockHeight, in a precommit vote set for that height and the commit's round over state.LastValidators (the set that signed it), and installs it only when it has +2/3", 5)
	f := c.Anchor(rule, csT+".reconstructLastCommit")
	if f == nil {
		return
	}
	var nvs ssa.CallInstruction
	for _, ci := range f.CallsTo(cfgx.Named("gemmill/types.NewVoteSet")) {
		nvs = ci
	}
	if nvs == nil {
		c.R.Undecided(rule, "NewVoteSet", c.P.Pos(f.F.Pos()), fname(f), "no NewVoteSet call")
		return
	}
	seen := "gemmill/blockchain.(*BlockStore).LoadSeenCommit(a0.blockStore,a1.LastBlockHeight)"
	c.R.Ob(rule, "voteset:height=LastBlockHeight", callArg(nvs, 1) == "a1.LastBlockHeight", c.Pos(nvs), fname(f), "got "+callArg(nvs, 1))
	c.R.Ob(rule, "voteset:round=seen-commit-round", callArg(nvs, 2) == "gemmill/types.(*Commit).Round("+seen+")", c.Pos(nvs), fname(f), "got "+shorten(callArg(nvs, 2)))
	c.R.Ob(rule, "voteset:type=precommit", callArg(nvs, 3) == "2", c.Pos(nvs), fname(f), "got "+callArg(nvs, 3))
	c.R.Ob(rule, "voteset:validators=LastValidators", callArg(nvs, 4) == "a1.LastValidators", c.Pos(nvs), fname(f), "the seen commit of height h was signed by the validator set of height h (state.LastValidators after the block was applied), got "+callArg(nvs, 4))
	for _, st := range f.FieldStores(rsT, "LastCommit") {
		ok := f.HasGuard(st, func(g string) bool {
			return strings.HasPrefix(g, "gemmill/types.(*VoteSet).HasTwoThirdsMajority(gemmill/types.NewVoteSet(")
		})
		c.R.Ob(rule, "LastCommit-installed⊣has+2/3", ok, c.Pos(st), fname(f), "cs.LastCommit must be a set with a +2/3 majority")
	}
}

// c07R7: the WAL reader returns whole records whatever their length.
func c07R7(c *Ctx) {
	rule := c.R.Rule("R7", "unbounded record length on read: GroupReader.ReadLine reads a line with bufio's ReadBytes/ReadString (which grow), never with ReadSlice/ReadLine (which fail with ErrBufferFull beyond the 4 KiB buffer) — WAL records holding block parts are far longer than the buffer", 1)
	f := c.Anchor(rule, "gemmill/modules/go-autofile.(*GroupReader).ReadLine")
	if f == nil {
		return
	}
	good, bad := 0, ""
	for _, ci := range f.Calls() {
		switch cfgxCallee(ci) {
		case "bufio.(*Reader).ReadBytes", "bufio.(*Reader).ReadString":
			good++
		case "bufio.(*Reader).ReadSlice", "bufio.(*Reader).ReadLine":
			bad = cfgxCallee(ci) + " at " + c.Pos(ci)
		}
	}
	c.R.Ob(rule, "ReadLine:growing-read", good >= 1 && bad == "", c.P.Pos(f.F.Pos()), fname(f), "a record longer than the reader's buffer must still be returned whole: replay (and the #HEIGHT search) otherwise stop at the first long record and everything after it — votes, lock — is lost; "+bad)
}

// c07R8: what the WAL is allowed to skip.
func c07R8(c *Ctx) { walSkipRule(c, "R8") }

// walSkipRule is shared by C07-R8, C01-R6, C04-R8 and C06-R7: agreement, the lock and crash recovery all rest on
// the WAL holding what was handled.
func walSkipRule(c *Ctx, id string) {
	rule := c.R.Rule(id, "nothing is dropped from the log but peer messages in light mode: every return of WAL.Save that is not preceded by the record's WriteLine lies, on every path, under `wal == nil` or under both `wal.light` and `msgInfo.PeerKey != \"\"` — the node's own messages (proposal, parts, votes), timeouts and round steps are always logged, peers' messages always in the default mode", 2)
	f := c.Anchor(rule, "gemmill/consensus/pbft.(*WAL).Save")
	if f == nil {
		return
	}
	var wl ssa.Instruction
	for _, ci := range f.CallsTo(cfgx.Named("gemmill/modules/go-autofile.(*Group).WriteLine")) {
		// the record itself (not the height marker written by writeHeight)
		wl = ci
	}
	if wl == nil {
		c.R.Undecided(rule, "Save:WriteLine", c.P.Pos(f.F.Pos()), fname(f), "no WriteLine")
		return
	}
	n := 0
	for _, r := range f.Returns() {
		if f.Dominates(wl, r) {
			continue
		}
		n++
		ok, why := everyPath(f, r, func(g map[string]bool) bool {
			if g["(a0 == nil)"] {
				return true
			}
			peer := false
			for k := range g {
				if strings.HasSuffix(k, `.PeerKey != "")`) && strings.Contains(k, "msgInfo") {
					peer = true
				}
			}
			return g["a0.light"] && peer
		})
		c.R.Ob(rule, "skip-return⊣(nil-wal | light∧peer-message)", ok, c.Pos(r), fname(f), "a record is dropped on a path that is neither `wal == nil` nor (light mode and a peer's message): replay after a crash cannot rebuild what was handled; "+shorten(why))
	}
	c.R.Ob(rule, "skip-returns", n >= 2, c.P.Pos(f.F.Pos()), fname(f), fmt.Sprintf("%d returns without a write", n))
}

// replayAllLinesRule (C07-R9, C04-R9): every line after the height marker is replayed.
func replayAllLinesRule(c *Ctx, id string) {
	rule := c.R.Rule(id, "every logged line is replayed: in catchupReplay the call readReplayMessage(line) depends only on ReadLine having succeeded — no guard inspects the line's content (a filter such as `#HEIGHT` stops the replay at the marker the search positioned on, and the lock and votes of the height are not restored)", 1)
	f := c.Anchor(rule, csT+".catchupReplay")
	if f == nil {
		return
	}
	n := 0
	for _, ci := range f.CallsTo(cfgx.Named(csT + ".readReplayMessage")) {
		n++
		bad := ""
		var lines []string
		for _, rl := range f.CallsTo(cfgx.Named("gemmill/modules/go-autofile.(*GroupReader).ReadLine")) {
			lines = append(lines, exprOf(rl.(ssa.Value))+"#0")
		}
		for _, g := range f.AllGuardForms(ci.(ssa.Instruction)) {
			for _, l := range lines {
				if strings.Contains(g, l) {
					bad = g
				}
			}
		}
		c.R.Ob(rule, "readReplayMessage⊣no-content-filter", bad == "", c.Pos(ci), fname(f), "replay of a line is conditional on its content: "+shorten(bad))
	}
	if n == 0 {
		c.R.Undecided(rule, "readReplayMessage", c.P.Pos(f.F.Pos()), fname(f), "no replay call")
	}
}

// c07R11: a height whose records span a file rotation is still found.  Group.Search bisects over the
// file indexes by reading forward from the middle file to the next marker line; when the files from
// the middle to the head hold no marker at all scanNext reports io.EOF, which says "look in the older
// files", not "the log has no such height".  catchupReplay treats an EOF from Search as "nothing to
// replay", so surfacing it makes a validator that crashed after a rotation restart the height
// without its votes and its lock.
func c07R11(c *Ctx) {
	rule := c.R.Rule("R11", "search across rotation: in Group.Search no return hands out the error of the bisection probe scanNext(...) unless the path establishes that it is not io.EOF (an EOF from the probe only narrows the search to the older files)", 1)
	f := c.Anchor(rule, "gemmill/modules/go-autofile.(*Group).Search")
	if f == nil {
		return
	}
	probes := f.CallsTo(cfgx.Named("gemmill/modules/go-autofile.scanNext"))
	if len(probes) == 0 {
		// no forward probe: the bisection was replaced; nothing to require here
		c.R.Ob(rule, "probe", true, c.P.Pos(f.F.Pos()), fname(f), "Search does not probe with scanNext")
		return
	}
	isEOF := func(v ssa.Value) bool {
		if u, ok := v.(*ssa.UnOp); ok {
			if g, ok := u.X.(*ssa.Global); ok {
				return g.Pkg != nil && g.Pkg.Pkg.Path() == "io" && g.Name() == "EOF"
			}
		}
		return false
	}
	for _, pc := range probes {
		call, _ := pc.(*ssa.Call)
		if call == nil {
			c.R.Undecided(rule, "probe-form", c.Pos(pc), fname(f), "scanNext is not called directly")
			continue
		}
		var errV ssa.Value
		for _, ref := range *call.Referrers() {
			if e, ok := ref.(*ssa.Extract); ok && e.Index == 2 {
				errV = e
			}
		}
		if errV == nil {
			c.R.Undecided(rule, "probe-error", c.Pos(pc), fname(f), "the error of scanNext is not bound")
			continue
		}
		var carries func(v ssa.Value, d int) bool
		carries = func(v ssa.Value, d int) bool {
			if v == errV {
				return true
			}
			if ph, ok := v.(*ssa.Phi); ok && d < 4 {
				for _, e := range ph.Edges {
					if carries(e, d+1) {
						return true
					}
				}
			}
			return false
		}
		excludesEOF := func(r ssa.Instruction) bool {
			for _, g := range f.Guards(r) {
				switch cv := g.Cond.(type) {
				case *ssa.BinOp:
					if (cv.X == errV && isEOF(cv.Y)) || (cv.Y == errV && isEOF(cv.X)) {
						if (cv.Op.String() == "==" && !g.Pol) || (cv.Op.String() == "!=" && g.Pol) {
							return true
						}
					}
				case *ssa.Call:
					if cfgx.CalleeName(cv) == "errors.Is" && len(cv.Call.Args) == 2 && cv.Call.Args[0] == errV && isEOF(cv.Call.Args[1]) && !g.Pol {
						return true
					}
				}
			}
			return false
		}
		n := 0
		ok := true
		var at ssa.Instruction = pc.(ssa.Instruction)
		for _, r := range f.Returns() {
			if len(r.Results) != 3 || !carries(r.Results[2], 0) {
				continue
			}
			n++
			if !excludesEOF(r) {
				ok = false
				at = r
			}
		}
		c.R.Ob(rule, "scanNext-error⊣not-EOF", ok, c.Pos(at), fname(f), fmt.Sprintf("the probe's io.EOF (no marker from the middle file to the head: the marker is in an older file) is returned to the caller; catchupReplay then skips the replay and the height restarts without its votes and lock (%d return(s) carry the probe's error)", n))
	}
}
