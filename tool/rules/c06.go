package rules

import (
	"fmt"
	"sort"
	"strings"

	"golang.org/x/tools/go/ssa"

	"annverif/cfgx"
	"annverif/core"
)

func init() {
	Registry["C06"] = c06
	Metas["C06"] = Meta{Level: "other", NeedCG: true,
		Technique: "static analysis: ordering (dominance / reachability) of the durable writes on the three commit paths, sibling agreement, descriptor-last and sync-write rules over resolved call sites, effect-set comparison between the live post-commit path and crash recovery",
		Explain:   "Crash points cannot be enumerated statically; decided is the ORDER and AGREEMENT of durable writes that recovery relies on. (R1) pbft path: SaveBlock is never after ApplyBlock, ApplyBlock dominates State.Save which dominates updateToState; in ExecBlock SetBlockAndValidators dominates SaveIntermediate which dominates the success return; in the EVM app's OnCommit state commit < trie-db commit < SaveLastBlock; (R2) the fast-sync executor and the raft FSM perform the same SaveBlock < ApplyBlock < Save sequence on the state they publish; (R3) in BlockStore.SaveBlock no store write follows the height descriptor and both sanity checks precede the first write; (R4) the watermark keys (state, intermediate state, block-store descriptor, app last block) are only ever written with the synchronous variant; (R5) every State field assigned after the application commit on the live path is also restored by the 'crashed between app commit and State.Save' branch of RecoverFromCrash, and that branch loads the intermediate state before overwriting hashes; (R6) RecoverFromCrash runs on every start with a genesis and its error is fatal. (R1 also) the application commit writes its append-only receipt/key-history records after its height watermark, and finalizeCommit skips SaveBlock only on the store's height descriptor. (R5 also) LoadIntermediate hands every field of the saved intermediate state to the parameter of the same role; (R6 also) the fast-sync pool starts at the reconciled store height. NOT decided: behaviour at each crash point, LevelDB/batch atomicity, repeated crashes.",
		Assume:    []string{"goleveldb SetSync is durable on return", "a single Set is atomic"},
	}
}

func c06(c *Ctx) {
	c06R1(c)
	c06R2(c)
	c06R3(c)
	c06R4(c)
	c06R5(c)
	c06R6(c)
	walSkipRule(c, "R7")
	replayVotesRule(c, "R8")
	shared(c, "C14", func(c *Ctx) { uniformApplicationRule(c, "R5") })
	shared(c, "C07", c07R6)
}

// first call to a named callee
func firstCall(f *cfgx.Fn, names ...string) ssa.CallInstruction {
	cs := f.CallsTo(cfgx.Named(names...))
	if len(cs) == 0 {
		return nil
	}
	return cs[0]
}

func (c *Ctx) before(rule, key string, f *cfgx.Fn, a, b ssa.CallInstruction, dominate bool, why string) {
	if a == nil || b == nil {
		c.R.Undecided(rule, key, c.P.Pos(f.F.Pos()), fname(f), "call site not found")
		return
	}
	ok := f.Reaches(a, b) && !f.Reaches(b, a)
	if dominate {
		ok = ok && f.Dominates(a, b)
	}
	c.R.Ob(rule, key, ok, c.Pos(b), fname(f), why)
}

func c06R1(c *Ctx) {
	rule := c.R.Rule("R1", "durable-write order on the pbft path: finalizeCommit: SaveBlock ≺ ApplyBlock ≺ State.Save ≺ updateToState; ExecBlock: SetBlockAndValidators ≺ SaveIntermediate ≺ success return; ApplyBlock: ExecBlock ≺ CommitStateUpdateMempool; EVMApp.OnCommit: StateDB.Commit ≺ TrieDB.Commit ≺ SaveLastBlock", 8)
	if f := c.Anchor(rule, csT+".finalizeCommit"); f != nil {
		sb := firstCall(f, "gemmill/blockchain.(*BlockStore).SaveBlock")
		ab := firstCall(f, "gemmill/state.(*State).ApplyBlock")
		sv := firstCall(f, "gemmill/state.(*State).Save")
		up := firstCall(f, csT+".updateToState")
		c.before(rule, "finalizeCommit:SaveBlock≺ApplyBlock", f, sb, ab, false, "the block must be durable before it is executed (recovery replays it from the store)")
		c.before(rule, "finalizeCommit:ApplyBlock≺Save", f, ab, sv, true, "the state is saved only after the application committed")
		c.before(rule, "finalizeCommit:Save≺updateToState", f, sv, up, true, "the next height starts from a durable state")
		if sb != nil {
			want := "(gemmill/blockchain.(*BlockStore).Height(a0.blockStore) < "
			has, other := false, ""
			for _, g := range f.AllGuardForms(sb) {
				if !strings.Contains(g, "a0.blockStore") {
					continue
				}
				if strings.HasPrefix(g, want) && strings.HasSuffix(g, ".Header.Height)") {
					has = true
				} else if !strings.Contains(g, " > gemmill/blockchain.(*BlockStore).Height(a0.blockStore))") {
					other = g
				}
			}
			c.R.Ob(rule, "finalizeCommit:SaveBlock-skipped-only-by-store-height", has && other == "", c.Pos(sb), fname(f), "SaveBlock may be skipped (WAL replay after a crash) only when the store's height descriptor — written last by SaveBlock (R3) — already covers the block; any earlier-written key (block meta, parts) exists after a crash in the middle of SaveBlock; offending guard: "+other)
		}
		if ab != nil && sv != nil {
			c.R.Ob(rule, "finalizeCommit:same-state-object", callArg(sv, 0) == callArg(ab, 0) && up != nil && callArg(up, 1) == callArg(ab, 0), c.Pos(sv), fname(f), "the state that executed the block is the one saved and published")
		}
	}
	if f := c.Anchor(rule, "gemmill/state.(*State).ExecBlock"); f != nil {
		sbv := firstCall(f, "gemmill/state.(*State).SetBlockAndValidators")
		si := firstCall(f, "gemmill/state.(*State).SaveIntermediate")
		c.before(rule, "ExecBlock:SetBlockAndValidators≺SaveIntermediate", f, sbv, si, true, "the intermediate state must already carry the new height/validators")
		ok := si != nil
		for _, r := range nilErrReturns(f) {
			if si == nil || !f.Dominates(si, r) {
				ok = false
			}
		}
		c.R.Ob(rule, "ExecBlock:SaveIntermediate≺success", ok, c.P.Pos(f.F.Pos()), fname(f), "ExecBlock may report success only after the intermediate state is durable (recovery after an app commit depends on it)")
		ex := firstCall(f, "gemmill/state.(*State).execBlockOnApp")
		c.before(rule, "ExecBlock:execBlockOnApp≺SaveIntermediate", f, ex, si, true, "intermediate state is saved after the application executed the block")
	}
	if f := c.Anchor(rule, "chain/app/evm.(*EVMApp).OnCommit"); f != nil {
		cm := firstCall(f, RefOrRepo("core/state.(*StateDB).Commit"))
		tc := firstCall(f, "eth/trie.(*Database).Commit")
		sl := firstCall(f, "gemmill/types.(*BaseApplication).SaveLastBlock")
		c.before(rule, "OnCommit:StateDB.Commit≺TrieDB.Commit", f, cm, tc, true, "the trie nodes are flushed after the state root is computed")
		c.before(rule, "OnCommit:TrieDB.Commit≺SaveLastBlock", f, tc, sl, true, "the app's height/hash watermark must not run ahead of the durable trie")
		sr := firstCall(f, "chain/app/evm.(*EVMApp).SaveReceipts")
		c.before(rule, "OnCommit:SaveLastBlock≺SaveReceipts", f, sl, sr, true, "the receipt / key-history records are append-only (not idempotent): they are written after the application's height watermark, so a block re-applied after a crash cannot append them twice")
		if sl != nil {
			ok := f.HasGuard(sl, func(g string) bool {
				return strings.HasPrefix(g, "(eth/trie.(*Database).Commit(") && strings.HasSuffix(g, " == nil)")
			})
			c.R.Ob(rule, "OnCommit:SaveLastBlock⊣trie-commit-ok", ok, c.Pos(sl), fname(f), "watermark written although the trie commit failed; "+guardsText(f, sl))
		}
	}
}

// RefOrRepo names an in-tree eth function.
func RefOrRepo(rel string) string { return "eth/" + rel }

func c06R2(c *Ctx) { c06R2as(c, "R2") }

func c06R2as(c *Ctx, id string) {
	rule := c.R.Rule(id, "sibling commit paths agree: the fast-sync executor closure installed by assembleStateMachine and raft's BlockChainFSM.Apply perform SaveBlock ≺ ApplyBlock ≺ State.Save, Save only after ApplyBlock returned nil, on the state object they publish", 6)
	// fast-sync executor: the closure passed to SetBlockExecuter
	var exec *cfgx.Fn
	if f := c.Anchor(rule, "gemmill.(*Angine).assembleStateMachine"); f != nil {
		for _, ci := range f.CallsTo(cfgx.Named("gemmill/blockchain.(*BlockchainReactor).SetBlockExecuter")) {
			if mc, ok := ci.Common().Args[1].(*ssa.MakeClosure); ok {
				exec = c.Fn(mc.Fn.(*ssa.Function))
			}
		}
	}
	type path struct {
		name string
		f    *cfgx.Fn
	}
	var paths []path
	if exec != nil {
		paths = append(paths, path{"fastsync-executor", exec})
	} else {
		c.R.Undecided(rule, "fastsync-executor", "-", "", "closure passed to SetBlockExecuter not found")
	}
	if f := c.Anchor(rule, "gemmill/consensus/raft.(*BlockChainFSM).Apply"); f != nil {
		paths = append(paths, path{"raft-fsm", f})
	}
	for _, p := range paths {
		f := p.f
		sb := firstCall(f, "gemmill/blockchain.(*BlockStore).SaveBlock")
		ab := firstCall(f, "gemmill/state.(*State).ApplyBlock")
		sv := firstCall(f, "gemmill/state.(*State).Save")
		c.before(rule, p.name+":SaveBlock≺ApplyBlock", f, sb, ab, true, "block durable before execution")
		c.before(rule, p.name+":ApplyBlock≺Save", f, ab, sv, true, "state saved after the application committed")
		if ab != nil && sv != nil {
			okG := f.HasGuard(sv, cfgx.Equals("("+cfgx.Expr(ab.(*ssa.Call))+" == nil)"))
			c.R.Ob(rule, p.name+":Save⊣ApplyBlock-ok", okG, c.Pos(sv), fname(f), "a failed ApplyBlock must not be followed by State.Save; "+guardsText(f, sv))
			c.R.Ob(rule, p.name+":same-state-object", callArg(sv, 0) == callArg(ab, 0), c.Pos(sv), fname(f), "saved state must be the one that executed the block")
		}
	}
}

func c06R3(c *Ctx) {
	rule := c.R.Rule("R3", "descriptor last: in BlockStore.SaveBlock no database write (db.Set / saveBlockPart / SetSync with a key) is reachable after BlockStoreStateJSON.Save, and the contiguity and completeness sanity checks dominate the first write", 4)
	f := c.Anchor(rule, "gemmill/blockchain.(*BlockStore).SaveBlock")
	if f == nil {
		return
	}
	desc := firstCall(f, "gemmill/blockchain.(BlockStoreStateJSON).Save")
	if desc == nil {
		c.R.Undecided(rule, "descriptor", c.P.Pos(f.F.Pos()), fname(f), "descriptor write not found")
		return
	}
	isWrite := func(ci ssa.CallInstruction) bool {
		n := cfgx.CalleeName(ci)
		switch n {
		case "iface:gemmill/modules/go-db.DB.Set", "gemmill/blockchain.(*BlockStore).saveBlockPart":
			return true
		case "iface:gemmill/modules/go-db.DB.SetSync":
			return callArg(ci, 0) != "nil"
		}
		return false
	}
	var first ssa.CallInstruction
	nW := 0
	for _, ci := range f.Calls() {
		if !isWrite(ci) {
			continue
		}
		nW++
		if first == nil || f.Dominates(ci, first) {
			first = ci
		}
		after := f.Reaches(desc, ci)
		c.R.Ob(rule, "write:"+shortCallee(ci)+"("+shorten(callArg(ci, len(ci.Common().Args)-2))+")≺descriptor", !after && f.Reaches(ci, desc), c.Pos(ci), fname(f), "a record written after the height descriptor is missing if the process dies in between, while the block already counts as stored")
	}
	if nW < 4 {
		c.R.Undecided(rule, "writes", c.P.Pos(f.F.Pos()), fname(f), fmt.Sprintf("expected meta, parts, block commit and seen commit writes, found %d", nW))
	}
	if first != nil {
		c.requireGuards(rule, "first-write", f, first, []WantGuard{
			{"contiguous", cfgx.Equals("(a1.Header.Height == (gemmill/blockchain.(*BlockStore).Height(a0) + 1))")},
			{"complete-part-set", cfgx.Equals("gemmill/types.(*PartSet).IsComplete(a2)")},
		})
	}
	// the descriptor carries this block's height
	ok := false
	for _, st := range f.Stores(func(a string) bool { return strings.HasSuffix(a, ".Height") && strings.HasPrefix(a, "local:") }) {
		if cfgx.Expr(st.Val) == "a1.Header.Height" {
			ok = true
		}
	}
	c.R.Ob(rule, "descriptor:height=block.Height", ok, c.Pos(desc), fname(f), "descriptor must record the saved block's height")
}

func c06R4(c *Ctx) {
	rule := c.R.Rule("R4", "watermarks use the synchronous write: the keys stateKey, stateIntermediateKey, blockStoreKey and lastBlockKey are passed only to SetSync (never to the buffered Set)", 4)
	watermark := func(arg string) string {
		for _, k := range []string{"g:gemmill/state.stateKey", "g:gemmill/state.stateIntermediateKey", "g:gemmill/blockchain.blockStoreKey", "g:gemmill/types.lastBlockKey"} {
			if arg == k {
				return k
			}
		}
		return ""
	}
	seen := map[string]int{}
	for _, fn := range c.P.RepoFuncs() {
		f := c.Fn(fn)
		// direct uses and uses through a key parameter (SaveByKey(key, db))
		for _, ci := range f.Calls() {
			n := cfgx.CalleeName(ci)
			if !strings.HasSuffix(n, ".Set") && !strings.HasSuffix(n, ".SetSync") && !strings.HasSuffix(n, ".Put") {
				continue
			}
			if !strings.Contains(n, "go-db.DB.") && !strings.Contains(n, "go-db.") && !strings.Contains(n, "ethdb") {
				continue
			}
			for i := range ci.Common().Args {
				k := watermark(callArg(ci, i))
				if k == "" {
					continue
				}
				seen[k]++
				if strings.Contains(fname(f), ".(*StoreTool).") || strings.Contains(fname(f), ".(*StateTool).") {
					// offline operator tools (backup / revert of a stopped node's databases): not on any commit path
					c.R.Note("exempt: %s writes %s with %s (offline maintenance tool)", core.Short(fname(f)), k, n)
					continue
				}
				c.R.Ob(rule, "write:"+k+"-in:"+core.Short(fname(f)), strings.HasSuffix(n, ".SetSync"), c.Pos(ci), fname(f), "watermark key written with "+n+": a buffered write can be lost while later writes survive")
			}
		}
	}
	// keys forwarded through a helper parameter: SaveByKey(blockStoreKey, db) -> db.SetSync(key, ...)
	if f := c.Anchor(rule, "gemmill/blockchain.(BlockStoreStateJSON).SaveByKey"); f != nil {
		ok := false
		for _, ci := range f.Calls() {
			if cfgx.CalleeName(ci) == "iface:gemmill/modules/go-db.DB.SetSync" && callArg(ci, 0) == "a1" {
				ok = true
			}
			if cfgx.CalleeName(ci) == "iface:gemmill/modules/go-db.DB.Set" {
				ok = false
				break
			}
		}
		seen["g:gemmill/blockchain.blockStoreKey"]++
		c.R.Ob(rule, "write:blockStoreKey-via-SaveByKey", ok, c.P.Pos(f.F.Pos()), fname(f), "the block-store descriptor must be written with SetSync")
	}
	if f := c.Anchor(rule, "gemmill/types.(*BaseApplication).SaveLastBlockByKey"); f != nil {
		ok, n := false, 0
		for _, ci := range f.Calls() {
			if cfgx.CalleeName(ci) == "iface:gemmill/modules/go-db.DB.SetSync" && callArg(ci, 0) == "a1" {
				ok = true
			}
			if cfgx.CalleeName(ci) == "iface:gemmill/modules/go-db.DB.Set" {
				n++
			}
		}
		seen["g:gemmill/types.lastBlockKey"]++
		c.R.Ob(rule, "write:lastBlockKey-via-SaveLastBlockByKey", ok && n == 0, c.P.Pos(f.F.Pos()), fname(f), "the application's last-block watermark must be written with SetSync")
	}
	var ks []string
	for k := range seen {
		ks = append(ks, k)
	}
	sort.Strings(ks)
	c.R.Note("watermark keys with writers found: %v", ks)
}

func c06R5(c *Ctx) {
	rule := c.R.Rule("R5", "recovery restores what commit sets: the State fields assigned in CommitStateUpdateMempool after the application's commit reply (live path) are all assigned in the branch of RecoverFromCrash that resumes after an application commit (after LoadIntermediate), and LoadIntermediate dominates those assignments", 3)
	loadIntermediateRoles(c, rule)
	live := map[string]bool{}
	if f := c.Anchor(rule, "gemmill/state.(*State).CommitStateUpdateMempool"); f != nil {
		for _, b := range f.F.Blocks {
			for _, ins := range b.Instrs {
				st, ok := ins.(*ssa.Store)
				if !ok || !f.Live(ins) {
					continue
				}
				if fa, ok := st.Addr.(*ssa.FieldAddr); ok && strings.HasPrefix(cfgx.Expr(fa), "a0.") && strings.Contains(cfgx.Expr(st.Val), ".ResCh") {
					live[strings.TrimPrefix(cfgx.Expr(fa), "a0.")] = true
				}
			}
		}
	}
	if len(live) == 0 {
		c.R.Undecided(rule, "live-effects", "-", "", "no State field assigned from the commit reply")
		return
	}
	f := c.Anchor(rule, "gemmill.(*Angine).RecoverFromCrash")
	if f == nil {
		return
	}
	li := firstCall(f, "gemmill/state.(*State).LoadIntermediate")
	if li == nil {
		c.R.Undecided(rule, "recover:LoadIntermediate", c.P.Pos(f.F.Pos()), fname(f), "call not found")
		return
	}
	restored := map[string]*ssa.Store{}
	for _, b := range f.F.Blocks {
		for _, ins := range b.Instrs {
			st, ok := ins.(*ssa.Store)
			if !ok || !f.Live(ins) || f.BlockOf(st) != f.BlockOf(li) {
				continue
			}
			if fa, ok := st.Addr.(*ssa.FieldAddr); ok && strings.HasPrefix(cfgx.Expr(fa), "a0.stateMachine.") {
				restored[strings.TrimPrefix(cfgx.Expr(fa), "a0.stateMachine.")] = st
			}
		}
	}
	for _, fld := range sortedKeys(live) {
		st, ok := restored[fld]
		c.R.Ob(rule, "recover:restores-"+fld, ok, c.Pos(li), fname(f), "State."+fld+" is set from the application's commit reply on the live path but not restored when the node crashed between the application commit and State.Save: the recovered state keeps the previous block's value")
		if ok {
			c.R.Ob(rule, "recover:LoadIntermediate≺"+fld, f.Dominates(li, st), c.Pos(st), fname(f), "LoadIntermediate sanity-checks the OLD hashes; assigning before it makes every restart panic")
		}
	}
}

func c06R6(c *Ctx) {
	rule := c.R.Rule("R6", "startup reconciliation is reached: ConnectApp calls RecoverFromCrash with the application's Info() on every path with a genesis, and a returned error is fatal", 2)
	// the fast-sync pool starts at the reconciled store height: the height read for NewBlockPool follows the
	// "store one ahead of state" adjustment
	poolStartObligations(c, rule)
	// RecoverFromCrash compares the application's height with blockstore.Height(): that value must be the
	// persisted descriptor, i.e. nobody but the store's own constructor / SaveBlock / revert writes BlockStore.height
	{
		allowed := map[string]bool{"gemmill/blockchain.NewBlockStore": true, "gemmill/blockchain.(*BlockStore).SaveBlock": true, "gemmill/blockchain.(*BlockStore).RevertFromHeight": true, "gemmill/blockchain.(*BlockStore).DeleteBlock": true}
		nw := 0
		for _, fn := range c.P.RepoFuncs() {
			if !strings.HasPrefix(core.Short(core.FuncName(fn)), "gemmill/") {
				continue
			}
			g := c.Fn(fn)
			for _, st := range g.FieldStores("gemmill/blockchain.BlockStore", "height") {
				nw++
				name := core.Short(core.FuncName(fn))
				c.R.Ob(rule, "store-height-writer:"+name, allowed[name] || c.helperOnlyCalledFrom(fn, allowed), c.Pos(st), core.FuncName(fn),
					"BlockStore.height is rewritten in memory outside the store: RecoverFromCrash (run later, by ConnectApp) then sees a height that is not the persisted one — after a crash between the application's commit and State.Save it finds the application ahead of the store and the node cannot start")
			}
		}
		c.R.Ob(rule, "store-height-writers", nw >= 2, "-", "", fmt.Sprintf("%d stores to BlockStore.height", nw))
	}
	f := c.Anchor(rule, "gemmill.(*Angine).ConnectApp")
	if f == nil {
		return
	}
	rc := firstCall(f, "gemmill.(*Angine).RecoverFromCrash")
	if rc == nil {
		c.R.Undecided(rule, "ConnectApp:RecoverFromCrash", c.P.Pos(f.F.Pos()), fname(f), "call not found")
		return
	}
	bad, path := f.PathAvoiding(nil, cfgx.IsReturn, func(ins ssa.Instruction) bool { return ins == ssa.Instruction(rc.(*ssa.Call)) })
	// the only allowed bypass is genesis == nil
	okBypass := true
	if bad {
		for _, r := range f.Returns() {
			if !f.Dominates(rc, r) && !f.HasGuard(r, cfgx.Equals("(a0.genesis == nil)")) {
				okBypass = false
			}
		}
	}
	c.R.Ob(rule, "ConnectApp:recover-on-every-start", okBypass, c.Pos(rc), fname(f), fmt.Sprintf("a start path (blocks %v) skips RecoverFromCrash although a genesis is loaded", path))
	fatal := false
	for _, ci := range f.Calls() {
		if c.NR.IsNoRetCall(ci) && f.HasGuard(ci, cfgx.Equals("("+cfgx.Expr(rc.(*ssa.Call))+" != nil)")) {
			fatal = true
		}
	}
	c.R.Ob(rule, "ConnectApp:recover-error-fatal", fatal, c.Pos(rc), fname(f), "a failed reconciliation must stop the node")
	c.R.Ob(rule, "ConnectApp:recover-args", strings.Contains(callArg(rc, 1), ".Info()") && strings.Contains(callArg(rc, 2), ".Info()"), c.Pos(rc), fname(f), "RecoverFromCrash must be given the application's own last hash/height")
}

// loadIntermediateRoles (part of C06-R5; also C16-R10): LoadIntermediate hands each field of the saved
// intermediate state to the parameter of the same role.
func loadIntermediateRoles(c *Ctx, rule string) {
	if f := c.Anchor(rule, "gemmill/state.(*State).LoadIntermediate"); f != nil {
		s2 := "gemmill/state.loadState(a0.db,g:gemmill/state.stateIntermediateKey)"
		cs := f.CallsTo(cfgx.Named("gemmill/state.(*State).setBlockAndValidators"))
		if len(cs) != 1 {
			c.R.Undecided(rule, "LoadIntermediate:setBlockAndValidators", c.P.Pos(f.F.Pos()), fname(f), "expected one call")
		}
		sbv := c.P.F("gemmill/state.(*State).setBlockAndValidators")
		for _, ci := range cs {
			// map parameter -> State field it is stored into (from the callee's own stores)
			role := map[int]string{}
			if sbv != nil {
				g := c.Fn(sbv)
				for _, st := range g.Stores(func(a string) bool { return strings.HasPrefix(a, "a0.") }) {
					if p, ok := st.Val.(*ssa.Parameter); ok {
						for i, pp := range sbv.Params {
							if pp == p {
								role[i] = strings.TrimPrefix(exprOf(st.Addr), "a0.")
							}
						}
					}
				}
			}
			n := 0
			for i, fld := range role {
				n++
				got := callArg(ci, i)
				want1, want2 := s2+"."+fld, "gemmill/types.(*ValidatorSet).Copy("+s2+"."+fld+")"
				c.R.Ob(rule, "LoadIntermediate:"+fld+"<-intermediate."+fld, got == want1 || got == want2, c.Pos(ci), fname(f),
					"the recovered state's "+fld+" must be the intermediate state's "+fld+" (a swapped pair leaves the node with the previous height's validator set as current: wrong proposer, wrong ValidatorsHash after every recovery); got "+shorten(strings.Replace(got, s2, "s2", -1)))
			}
			c.R.Ob(rule, "LoadIntermediate:roles-resolved", n >= 6, c.Pos(ci), fname(f), fmt.Sprintf("%d parameters mapped to State fields", n))
		}
	}
}

// poolStartObligations is used by C06-R6 and C13-R10: the fast-sync pool starts right above the
// reconciled store height.
func poolStartObligations(c *Ctx, rule string) {
	if g := c.Anchor(rule, "gemmill/blockchain.NewBlockchainReactor"); g != nil {
		var hack *ssa.Store
		for _, st := range g.FieldStores("gemmill/blockchain.BlockStore", "height") {
			hack = st
		}
		for _, ci := range g.CallsTo(cfgx.Named("gemmill/blockchain.NewBlockPool")) {
			arg := ci.Common().Args[0]
			ok := false
			detail := "start height is " + shorten(exprOf(arg))
			if bo, isBo := arg.(*ssa.BinOp); isBo && exprOf(bo.Y) == "1" {
				if hc, isCall := bo.X.(*ssa.Call); isCall && cfgxCallee(hc) == "gemmill/blockchain.(*BlockStore).Height" {
					ok = hack == nil || !g.Reaches(hc, hack)
					if !ok {
						detail = "store.Height() is read before the adjustment `store.height -= 1`"
					}
				}
			}
			c.R.Ob(rule, "NewBlockchainReactor:pool-starts-at-reconciled-height+1", ok, c.Pos(ci), fname(g), "after a crash between SaveBlock and State.Save the store is one ahead and is stepped back so that block is re-applied; the pool must start from the adjusted height: "+detail)
		}
	}
}
