package rules

import (
	"crypto/sha256"
	"fmt"
	"os"
	"path/filepath"
	"sort"
	"strings"

	"annverif/core"
	"annverif/equiv"
)

func init() {
	Registry["C10"] = c10
	Metas["C10"] = Meta{Level: "translation_validation", NeedCG: false, Ref: true,
		Technique: "translation validation: token- and name-resolution equivalence of every function of eth/core/vm and of its dependency closure (constants by value, types, variables, callees; byte equality of C/assembly sources) against go-ethereum v1.8.27 from the module cache, with a reviewed deviation table and table rules for the documented deviations",
		Explain:   "Translation validation of the in-tree EVM against the oracle the property names (go-ethereum v1.8.27, Constantinople rules). Every function of eth/core/vm is either EQUIVALENT to its namesake — identical token sequence and every identifier resolving to the corresponding object, with all referenced constants (by exact value), types, variables and callees of the eth tree compared in turn, and the C/assembly sources of the crypto dependencies byte-identical — or it is a row of the reviewed deviation table, decided by its own rule: (R2) NewEVMInterpreter forces the Constantinople jump table; (R3) Run meters every operation against the per-transaction budget before executing it and falls back to the reference gas function exactly when no base cost is defined; (R4) the precompile map is the Byzantium set plus the governance contract at 0xfe and is consulted unconditionally; (R5) the jump tables equal the reference's except for the added baseGasCost field on the four CALL-family opcodes. (R8) the same for eth/params, eth/core/vm/runtime and the transaction-execution functions of eth/core (ApplyTransaction, ApplyMessage, StateTransition.*, NewEVMContext, Transfer, ...), with the Constantinople gas table / Byzantium receipt form / zero COINBASE deviations pinned to exact edits; (R7) each deliberately differing type or variable equals the reference declaration plus exactly its reviewed edit; (R6) the C and assembly sources of the crypto dependencies are byte-identical. `programs` = functions compared, `disagreements_checked` = functions that differ and were decided by a deviation row. The procedure is sound and incomplete: an edit it cannot see through is reported and needs a reviewed row. NOT decided: behaviour of the deviating functions beyond R2-R5; correctness of the reference itself.",
		Assume:    []string{"go-ethereum v1.8.27 in the module cache is the reference semantics", "packages log and metrics do not influence EVM results (opaque)"},
	}
}

// declarations of eth/core/vm (and below) that deliberately differ; used both as rows for the target
// functions and as assumptions when they appear as dependencies of other functions.
var c10Assume = []string{
	"eth/core/vm::type:EVM",       // adds gasLeft (per-transaction budget)
	"eth/core/vm::type:Config",    // adds EVMGasLimit
	"eth/core/vm::type:operation", // adds baseGasCost
	"eth/core/vm::run",            // precompile dispatch (R4)
	"eth/core/vm::NewEVMInterpreter",
	"eth/core/vm::(*EVMInterpreter).Run",
	"eth/core/vm::NewEVM",
	"eth/core/vm::(*EVM).Call",
	"eth/core/vm::var:PrecompiledContractsByzantium",
	"eth/core/vm::gasSStore",
	"eth/core/vm::newByzantiumInstructionSet", "eth/core/vm::newConstantinopleInstructionSet", "eth/core/vm::newHomesteadInstructionSet", "eth/core/vm::newFrontierInstructionSet",
	"eth/core/vm::var:byzantiumInstructionSet", "eth/core/vm::var:constantinopleInstructionSet", "eth/core/vm::var:homesteadInstructionSet", "eth/core/vm::var:frontierInstructionSet",
	"eth/core/vm::NewJSONLogger",
	"eth/params::type:Rules",                                     // no IsPetersburg at the fork point
	"eth/params::(*ChainConfig).Rules",                           // idem
	"eth/params::(*ChainConfig).GasTable",                        // Constantinople table forced
	"eth/params::var:Version", "eth/params::var:VersionWithMeta", // version string (1.8.21 vs 1.8.27)
	"eth/core/types::type:Header", "eth/core/types::CopyHeader",
	"eth/core::type:ChainContext",                // no Engine() in the AnnChain chain context
	"eth/params::(*ChainConfig).checkCompatible", // version drift in the header type (not used by the EVM beyond Number/Time/Difficulty/GasLimit/Coinbase)
}

func setAssume(eq *equiv.Checker, list []string) {
	for _, a := range list {
		eq.Assume[core.Mod+"/"+a] = true
	}
}

func c10(c *Ctx) {
	eq := c.Equiv()
	setAssume(eq, c10Assume)
	setAssume(eq, c11Assume)
	rule := c.R.Rule("R1", "every function of eth/core/vm is equivalent (tokens + resolved identifiers + dependency closure) to its namesake in go-ethereum v1.8.27, or is a reviewed deviation row", 200)
	dev := c10VMDeviations()
	n, d := equivPackage(c, rule, "eth/core/vm", dev, map[string]string{})
	for i, rel := range []string{"eth/params", "eth/core/vm/runtime", "eth/core"} {
		r2 := c.R.Rule("R8."+string(rune('a'+i)), "every function of "+rel+" (for eth/core: the transaction-execution functions the application calls) is equivalent to its namesake in go-ethereum v1.8.27 or is a reviewed deviation row", 5)
		n2, d2 := equivPackageSel(c, r2, rel, c10DevOther[rel], c10MissingOK[rel], c10Only[rel])
		c.R.Extra["programs_"+rel] = n2
		c.R.Extra["disagreements_"+rel] = d2
	}
	declDeviationRule(c, "R7")
	nativeSourcesRule(c, "R6", []string{"eth/crypto/secp256k1", "eth/crypto/bn256/cloudflare", "eth/crypto/bn256/google", "eth/crypto/sha3"})
	c.R.Extra["programs"] = n
	c.R.Extra["disagreements_checked"] = d
	var used []string
	for k := range eq.UsedAssume {
		used = append(used, strings.TrimPrefix(k, core.Mod+"/"))
	}
	sort.Strings(used)
	c.R.Extra["assumed_deviating_dependencies"] = used
}

// c10OpBase: opBaseGasCall falls back to the reference gas function exactly when no base cost is defined.
func c10OpBase(c *Ctx) (bool, string) {
	f := c.P.F("eth/core/vm.opBaseGasCall")
	if f == nil {
		return false, "opBaseGasCall not found"
	}
	cf := c.Fn(f)
	okGas, okBase := false, false
	for _, ci := range cf.Calls() {
		n := cfgxCallee(ci)
		if n == "dyn:a0.gasCost" && cf.HasGuard(ci, eqs("(a0.baseGasCost == nil)")) {
			okGas = true
		}
		if n == "dyn:a0.baseGasCost" && cf.HasGuard(ci, eqs("(a0.baseGasCost != nil)")) {
			okBase = true
		}
	}
	return okGas && okBase, "gasCost is used iff baseGasCost == nil, baseGasCost otherwise"
}

// c10UseGas: useGas subtracts exactly `amount` and refuses when the budget is smaller.
func c10UseGas(c *Ctx) (bool, string) {
	f := c.P.F("eth/core/vm.useGas")
	if f == nil {
		return false, "useGas not found"
	}
	cf := c.Fn(f)
	ok := false
	for _, st := range cf.Stores(eqs("a0")) {
		if exprOf(st.Val) == "(a0 - a1)" && cf.HasGuard(st, eqs("(a0 >= a1)")) {
			ok = true
		}
	}
	retOK := true
	for _, r := range cf.Returns() {
		v := exprOf(cf.ReturnValues(r)[0])
		if v == "true" && !cf.HasGuard(r, eqs("(a0 >= a1)")) {
			retOK = false
		}
		if v == "false" && !cf.HasGuard(r, eqs("(a0 < a1)")) {
			retOK = false
		}
	}
	return ok && retOK, "*gas -= amount only under *gas >= amount; returns false otherwise"
}

// nativeSourcesRule: C / assembly / header files of the given in-tree packages are byte-identical to
// the reference's (token comparison only sees Go files).
func nativeSourcesRule(c *Ctx, id string, rels []string) {
	rule := c.R.Rule(id, "native sources: every .c/.h/.s/.S file (recursively) of the cgo/assembly crypto packages is byte-identical to the reference module's file of the same relative path", 10)
	for _, rel := range rels {
		rp := c.P.AllPkgs[core.Mod+"/"+rel]
		fp := c.P.AllPkgs[equiv.MapPath(core.Mod+"/"+rel)]
		if rp == nil || fp == nil || len(rp.GoFiles) == 0 || len(fp.GoFiles) == 0 {
			c.R.Note("native sources: package %s not loaded on both sides; skipped", rel)
			continue
		}
		rdir, fdir := filepath.Dir(rp.GoFiles[0]), filepath.Dir(fp.GoFiles[0])
		sums := func(dir string) map[string]string {
			m := map[string]string{}
			filepath.Walk(dir, func(p string, info os.FileInfo, err error) error {
				if err != nil || info.IsDir() {
					return nil
				}
				switch filepath.Ext(p) {
				case ".c", ".h", ".s", ".S":
					b, err := os.ReadFile(p)
					if err == nil {
						r, _ := filepath.Rel(dir, p)
						m[r] = fmt.Sprintf("%x", sha256.Sum256(b))
					}
				}
				return nil
			})
			return m
		}
		rs, fs := sums(rdir), sums(fdir)
		var names []string
		for k := range rs {
			names = append(names, k)
		}
		for k := range fs {
			if _, ok := rs[k]; !ok {
				names = append(names, k)
			}
		}
		sort.Strings(names)
		for _, nme := range names {
			ok := rs[nme] != "" && rs[nme] == fs[nme]
			c.R.Ob(rule, rel+"/"+nme, ok, rel+"/"+nme, "", "native source file must equal the reference's byte for byte (in-tree sha256 "+short8(rs[nme])+", reference "+short8(fs[nme])+")")
		}
	}
}

func short8(s string) string {
	if len(s) > 8 {
		return s[:8]
	}
	if s == "" {
		return "absent"
	}
	return s
}

var c10Only = map[string][]string{
	"eth/core": {"ApplyTransaction", "ApplyMessage", "NewStateTransition", "IntrinsicGas", "(*StateTransition).TransitionDb", "(*StateTransition).preCheck",
		"(*StateTransition).buyGas", "(*StateTransition).refundGas", "(*StateTransition).gasUsed", "(*StateTransition).useGas", "(*StateTransition).to",
		"NewEVMContext", "GetHashFn", "CanTransfer", "Transfer", "(*GasPool).AddGas", "(*GasPool).SubGas", "(*GasPool).Gas"},
}

var c10DevOther = map[string]map[string]Deviation{
	"eth/params": {
		"(*ChainConfig).GasTable": {Reason: "R2 companion: the Constantinople gas table for every block number (documented deviation)", Patch: []PatchStep{
			{Ref: "GasTable { if num == nil {", Tree: "GasTable { return GasTableConstantinople if num == nil {"}}},
		"(*ChainConfig).Rules": {Reason: "version drift: no Petersburg rule at the fork point", Patch: []PatchStep{
			{Ref: "IsConstantinople : c . IsConstantinople ( num ) , IsPetersburg : c . IsPetersburg ( num ) ,", Tree: "IsConstantinople : c . IsConstantinople ( num ) ,"}}},
		"(*ChainConfig).String":          {Reason: "printing only (version drift)"},
		"(*ChainConfig).checkCompatible": {Reason: "version drift: no Petersburg fork block to compare; used when a stored chain config is upgraded, not during execution"},
	},
	"eth/core/vm/runtime": {},
	"eth/core": {
		"ApplyTransaction": {Reason: "Byzantium receipt form for every block (no intermediate root), and the receipt is keyed by AnnChain's transaction hash", Patch: []PatchStep{
			{Ref: "if config . IsByzantium ( header . Number ) { statedb . Finalise ( true ) } else { root = statedb . IntermediateRoot ( config . IsEIP158 ( header . Number ) ) . Bytes ( ) }", Tree: "statedb . Finalise ( true )"},
			{Ref: "receipt . TxHash = tx . Hash ( )", Tree: "txBytes , _ := rlp . EncodeToBytes ( tx ) receipt . TxHash = common . BytesToHash ( gtypes . Tx ( txBytes ) . Hash ( ) )"},
			{Ref: "statedb . GetLogs ( tx . Hash ( ) )", Tree: "statedb . GetLogs ( receipt . TxHash )"}}},
		"NewEVMContext": {Reason: "no consensus engine / block author in AnnChain: COINBASE is the zero address; header time is a *big.Int at the fork point (version drift)", Patch: []PatchStep{
			{Ref: "var beneficiary common . Address if author == nil { beneficiary , _ = chain . Engine ( ) . Author ( header ) } else { beneficiary = * author }", Tree: "var beneficiary common . Address"},
			{Ref: "new ( big . Int ) . SetUint64 ( header . Time )", Tree: "new ( big . Int ) . Set ( header . Time )"}}},
	},
}
var c10MissingOK = map[string]map[string]string{
	"eth/params":          {"(*ChainConfig).IsPetersburg": "version drift: Petersburg was added after the fork point; the property fixes Constantinople rules"},
	"eth/core/vm/runtime": {},
	"eth/core":            {},
}

// c10VMDeviations: the reviewed deviation rows of eth/core/vm (each a patch against the reference).
func c10VMDeviations() map[string]Deviation {
	byz := "precompiles := PrecompiledContractsHomestead if evm . ChainConfig ( ) . IsByzantium ( evm . BlockNumber ) { precompiles = PrecompiledContractsByzantium }"
	dev := map[string]Deviation{
		"NewEVMInterpreter": {Reason: "R2: forces the Constantinople table for every block number (documented deviation)", Patch: []PatchStep{
			{Ref: "cfg . JumpTable = frontierInstructionSet }", Tree: "cfg . JumpTable = frontierInstructionSet } cfg . JumpTable = constantinopleInstructionSet"}}},
		"(*EVMInterpreter).Run": {Reason: "R3: every operation is charged against the fixed per-transaction budget before it executes (documented deviation)", Patch: []PatchStep{
			{Ref: "operation . gasCost ( in . gasTable ,", Tree: "opBaseGasCall ( operation , in . gasTable ,"},
			{Ref: "! contract . UseGas ( cost )", Tree: "! useGas ( & in . evm . gasLeft , cost )"}}},
		"run": {Reason: "R4: Byzantium precompile set for every block; precompiles charged against the fixed budget; governance contract gets the state", Patch: []PatchStep{
			{Ref: byz, Tree: "precompiles := PrecompiledContractsByzantium"},
			{Ref: "return RunPrecompiledContract ( p , input , contract )", Tree: "gas := p . RequiredGas ( input ) if useGas ( & evm . gasLeft , gas ) { ap , ok := p . ( * AdminOP ) if ok { ap . SetState ( evm . StateDB ) } return p . Run ( input ) } return nil , ErrOutOfGas"}}},
		"(*EVM).Call": {Reason: "R4: Byzantium precompile set for every block", Patch: []PatchStep{{Ref: byz, Tree: "precompiles := PrecompiledContractsByzantium"}}},
		"NewEVM": {Reason: "initialises the per-transaction budget from Config.EVMGasLimit", Patch: []PatchStep{
			{Ref: "interpreters : make ( [ ] Interpreter , 0 , 1 ) ,", Tree: "interpreters : make ( [ ] Interpreter , 0 , 1 ) , gasLeft : vmConfig . EVMGasLimit ,"}}},
		"gasSStore": {Reason: "version drift: Petersburg does not exist at the fork point; Constantinople net-metering kept (the property fixes Constantinople rules)", Patch: []PatchStep{
			{Ref: "evm . chainRules . IsPetersburg || ! evm . chainRules . IsConstantinople", Tree: "! evm . chainRules . IsConstantinople"}}},
		"NewJSONLogger": {Reason: "tracer construction (version drift: reference sets a default config), not on the execution path"},
		"newByzantiumInstructionSet": {Reason: "R5: adds the base-cost function on STATICCALL", Patch: []PatchStep{
			{Ref: "gasCost : gasStaticCall ,", Tree: "gasCost : gasStaticCall , baseGasCost : baseGasStaticCall ,"}}},
		"newHomesteadInstructionSet": {Reason: "R5: adds the base-cost function on DELEGATECALL", Patch: []PatchStep{
			{Ref: "gasCost : gasDelegateCall ,", Tree: "gasCost : gasDelegateCall , baseGasCost : baseGasDelegateCall ,"}}},
		"newFrontierInstructionSet": {Reason: "R5: adds the base-cost function on CALL and CALLCODE", Patch: []PatchStep{
			{Ref: "gasCost : gasCall ,", Tree: "gasCost : gasCall , baseGasCost : baseGasCall ,"},
			{Ref: "gasCost : gasCallCode ,", Tree: "gasCost : gasCallCode , baseGasCost : baseGasCallCode ,"}}},
		// AnnChain-only functions
		"(*AdminDBApp).From": {Reason: "governance precompile (documented addition)"}, "(*AdminDBApp).GetNonce": {Reason: "governance precompile"},
		"(*AdminOP).RequiredGas": {Reason: "governance precompile"}, "(*AdminOP).Run": {Reason: "governance precompile; input discipline decided by C09-R3"},
		"(*AdminOP).SetCallback": {Reason: "governance precompile"}, "(*AdminOP).SetState": {Reason: "governance precompile"},
		"(*EVM).GasLeft": {Reason: "accessor of the per-transaction budget"},
		"Disasm":         {Reason: "debug helper, not on the execution path"}, "Disassemble": {Reason: "debug helper, not on the execution path"},
		"baseGasCall": {Reason: "fixed-budget metering: CALL cost without the forwarded gas"}, "baseGasCallCode": {Reason: "fixed-budget metering"},
		"baseGasDelegateCall": {Reason: "fixed-budget metering"}, "baseGasStaticCall": {Reason: "fixed-budget metering"},
		"opBaseGasCall": {Reason: "fixed-budget metering helper", Check: c10OpBase},
		"useGas":        {Reason: "fixed-budget metering helper", Check: c10UseGas},
	}
	return dev
}

// vmEquivShared (C05 / C09 / C14 as "C10.R1"): the EVM the application executes with is the reference's.
func vmEquivShared(c *Ctx) {
	eq := c.Equiv()
	setAssume(eq, c10Assume)
	setAssume(eq, c11Assume)
	rule := c.R.Rule("R1", "every function of eth/core/vm is equivalent (tokens + resolved identifiers + dependency closure) to its namesake in go-ethereum v1.8.27, or is a reviewed deviation row whose patch against the reference is checked", 200)
	equivPackage(c, rule, "eth/core/vm", c10VMDeviations(), map[string]string{})
	r2 := c.R.Rule("R8.c", "the transaction-execution functions of eth/core the application calls are equivalent to the reference or reviewed deviations", 5)
	equivPackageSel(c, r2, "eth/core", c10DevOther["eth/core"], c10MissingOK["eth/core"], c10Only["eth/core"])
}
