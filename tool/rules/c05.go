package rules

import (
	"fmt"
	"go/types"
	"sort"
	"strings"

	"golang.org/x/tools/go/ssa"

	"annverif/cfgx"
	"annverif/core"
)

func init() {
	Registry["C05"] = c05
	Metas["C05"] = Meta{Ref: true, Level: "other", NeedCG: true,
		Technique: "static analysis: effect-set (append vs reset) check of per-block accumulators, dominance of state rebuild, who-may-call of the execution callbacks, publish-order check around atomic status stores, nondeterminism-source lint with a reviewed table, reviewed-table lint of package-level stores and struct-held map updates",
		Explain:   "Determinism of replicated execution is a hyperproperty over two runs and is not decided. Decided are structural necessary conditions: (R1) every EVMApp field that the per-transaction end callback appends to is reset on the commit path, so a block's receipts hash cannot depend on earlier blocks of the same process lifetime; (R2) OnExecute rebuilds currentState from the persisted last app hash, unconditionally, before any transaction runs, and nothing else assigns currentState; (R3) the execution callbacks are invoked only by the in-order executor loop (never from a worker goroutine) with the outer loop index, the serial variant (which does not verify signatures) has no production caller, and the worker count only sizes the verifier pool; (R4) in the parallel verifier no plain field of a transaction slot is written after the atomic store that publishes its terminal status; (R5) in the AnnChain-specific execution/commit/hash code every map iteration and every time/rand/NumCPU use is in the reviewed table (order-insensitive or not feeding replicated state); (R6) the receipts hash is computed from the block's receipts then key-value records, in slice order. (R7) no package-level variable of the application or state packages is written after initialisation (evmConfig is shared by block execution and RPC queries). (R2 also) the gas pool given to ApplyTransaction is created per transaction. (R9) every map held in a field of a struct of chain/app/evm and updated at run time is in the reviewed table (per-commit batch memo; transaction-pool bookkeeping, which is not an input of execution), so no unreviewed in-memory memo can make a restarted replica differ from a continuous one. NOT decided: equality of hashes between runs, EVM determinism (C10/C11).",
		Assume:    []string{"the in-tree EVM and trie are deterministic (C10/C11)", "rlp encoding is canonical (C18)"},
	}
}

const evmT = "chain/app/evm.(*EVMApp)"

func c05(c *Ctx) {
	c05R1(c)
	c05R2(c)
	c05R3(c)
	publishOrderRule(c, "R4")
	c05R5(c)
	c05R6(c)
	c05R7(c)
	c05R8(c)
	c05R9(c)
	shared(c, "C06", c06R1)
	shared(c, "C10", vmEquivShared)
}

func isResetVal(v ssa.Value) bool {
	if cfgx.IsNilConst(v) {
		return true
	}
	if sl, ok := v.(*ssa.Slice); ok {
		if sl.High != nil && cfgx.IsZeroConst(sl.High) {
			return true
		}
	}
	if _, ok := v.(*ssa.MakeSlice); ok {
		return true
	}
	return false
}

func c05R1(c *Ctx) {
	rule := c.R.Rule("R1", "accumulators reset at commit: every EVMApp field appended to by the end-of-transaction callback built in genExecFun is assigned nil/empty on every successful path of OnCommit (directly, or in SaveReceipts which OnCommit calls unconditionally)", 3)
	gen := c.P.F(evmT + ".genExecFun")
	if gen == nil {
		c.R.Missing(rule, evmT+".genExecFun")
		return
	}
	acc := map[string]bool{}
	var visit func(fn *ssa.Function)
	visit = func(fn *ssa.Function) {
		f := c.Fn(fn)
		for _, b := range fn.Blocks {
			for _, ins := range b.Instrs {
				st, ok := ins.(*ssa.Store)
				if !ok || !f.Live(ins) {
					continue
				}
				fa, ok := st.Addr.(*ssa.FieldAddr)
				if !ok || !strings.HasPrefix(cfgx.Expr(st.Val), "append(") {
					continue
				}
				a := cfgx.Expr(fa)
				if strings.HasPrefix(a, "fv:app.") && strings.Count(a, ".") == 1 {
					acc[strings.TrimPrefix(a, "fv:app.")] = true
				}
			}
		}
		for _, an := range fn.AnonFuncs {
			visit(an)
		}
	}
	visit(gen)
	if len(acc) == 0 {
		c.R.Undecided(rule, "accumulators", c.P.Pos(gen.Pos()), core.FuncName(gen), "no app-level accumulator found in the execution callbacks")
		return
	}
	oc := c.Anchor(rule, evmT+".OnCommit")
	sr := c.Anchor(rule, evmT+".SaveReceipts")
	if oc == nil || sr == nil {
		return
	}
	srCall := firstCall(oc, evmT+".SaveReceipts")
	for _, a := range sortedKeys(acc) {
		resetIn := func(f *cfgx.Fn) bool {
			for _, st := range f.FieldStores("chain/app/evm.EVMApp", a) {
				if !isResetVal(st.Val) {
					continue
				}
				all := true
				for _, r := range nilErrReturns(f) {
					if !f.Dominates(st, r) {
						all = false
					}
				}
				if all {
					return true
				}
			}
			return false
		}
		ok := resetIn(oc)
		if !ok && srCall != nil && resetIn(sr) {
			ok = true
			for _, r := range nilErrReturns(oc) {
				if !oc.Dominates(srCall, r) {
					ok = false
				}
			}
		}
		c.R.Ob(rule, "reset:"+a, ok, c.P.Pos(oc.F.Pos()), fname(oc), "EVMApp."+a+" is appended to for every valid transaction but never cleared at commit: the next block's receipts hash then covers records of earlier blocks of this process lifetime, and a restarted replica computes a different hash")
	}
}

func c05R2(c *Ctx) {
	rule := c.R.Rule("R2", "state rebuilt per block: OnExecute stores currentState = estate.New(getLastAppHash(), NewDatabase(stateDb)) and that store dominates exeWithCPUParallelVeirfy; the executor call is edge-dominated by New's error being nil; no other function assigns currentState", 3)
	f := c.Anchor(rule, evmT+".OnExecute")
	if f == nil {
		return
	}
	// per-transaction resources are created per transaction: the gas pool handed to ApplyTransaction
	if g := c.Anchor(rule, evmT+".executeOriginTx"); g != nil {
		for _, ci := range g.CallsTo(cfgx.Named("eth/core.ApplyTransaction")) {
			gp := ci.Common().Args[3]
			fresh := false
			if call, ok := gp.(*ssa.Call); ok && cfgxCallee(call) == "eth/core.(*GasPool).AddGas" {
				if _, isAlloc := call.Call.Args[0].(*ssa.Alloc); isAlloc {
					fresh = true
				}
			}
			// the chain context (BLOCKHASH source) is rebuilt from the database per transaction, never a long-lived object
			bcArg := ci.Common().Args[1]
			for {
				if mi, isMI := bcArg.(*ssa.MakeInterface); isMI {
					bcArg = mi.X
					continue
				}
				break
			}
			bcFresh := false
			if call, ok := bcArg.(*ssa.Call); ok && cfgxCallee(call) == "chain/app/evm.NewBlockChain" && callArg(call, 0) == "a0.stateDb" {
				bcFresh = true
			}
			c.R.Ob(rule, "executeOriginTx:chain-context-fresh-per-transaction", bcFresh, c.Pos(ci), fname(g), "the ChainContext given to ApplyTransaction must be NewBlockChain(app.stateDb) built for this transaction: a long-lived object can carry in-memory history (a header cache) that a restarted replica lacks, so BLOCKHASH differs; got "+shorten(exprOf(bcArg)))
			c.R.Ob(rule, "executeOriginTx:gas-pool-fresh-per-transaction", fresh, c.Pos(ci), fname(g), "the GasPool given to ApplyTransaction must be created for this transaction (new(GasPool).AddGas(...)): a pool kept in the application drains across transactions and makes validity depend on the process' history; got "+shorten(exprOf(gp)))
		}
	}
	want := "eth/core/state.New(chain/app/evm.(*EVMApp).getLastAppHash(a0),eth/core/state.NewDatabase(a0.stateDb))#0"
	sts := f.FieldStores("chain/app/evm.EVMApp", "currentState")
	ex := firstCall(f, "chain/app/evm.exeWithCPUParallelVeirfy")
	ok := len(sts) == 1 && ex != nil && cfgx.Expr(sts[0].Val) == want && f.Dominates(sts[0], ex) && len(f.Guards(sts[0])) == 0
	c.R.Ob(rule, "OnExecute:rebuild≺execute", ok, c.P.Pos(f.F.Pos()), fname(f), "the working state must be re-opened from the persisted app hash, unconditionally, before the block's transactions run (a state object kept across blocks carries per-process counters into receipts)")
	if ex != nil {
		c.R.Ob(rule, "OnExecute:execute⊣state-opened", f.HasGuard(ex, func(g string) bool {
			return strings.HasPrefix(g, "(eth/core/state.New(") && strings.HasSuffix(g, "#1 == nil)")
		}), c.Pos(ex), fname(f), guardsText(f, ex))
		c.R.Ob(rule, "OnExecute:txs=block.Data.Txs", callArg(ex, 1) == "a3.Data.Txs", c.Pos(ex), fname(f), "executed transactions must be the block's")
	}
	for _, fn := range c.P.RepoFuncs() {
		g := c.Fn(fn)
		for _, st := range g.FieldStores("chain/app/evm.EVMApp", "currentState") {
			n := core.Short(fname(g))
			c.R.Ob(rule, "currentState-writer:"+n, n == evmT+".OnExecute", c.Pos(st), fname(g), "currentState may be assigned only by OnExecute")
		}
	}
	if g := c.Anchor(rule, evmT+".getLastAppHash"); g != nil {
		ok := len(g.CallsTo(cfgx.Named("gemmill/types.(*BaseApplication).LoadLastBlock"))) == 1
		c.R.Ob(rule, "getLastAppHash:from-persisted-watermark", ok, c.P.Pos(g.F.Pos()), fname(g), "the root must be read from the durable last-block record")
	}
}

func namedType(t types.Type) string {
	if nt, ok := t.(*types.Named); ok && nt.Obj().Pkg() != nil {
		return core.Short(nt.Obj().Pkg().Path()) + "." + nt.Obj().Name()
	}
	return ""
}

func c05R3(c *Ctx) {
	rule := c.R.Rule("R3", "execution order: values of type ExecFunc / EndExecFunc / BeginExecFunc are called only in exeWithCPUParallelVeirfy, exeWithCPUSerialVeirfy and execTx, never inside a `go` closure or a verifier routine; the parallel executor passes its outer loop index; exeWithCPUSerialVeirfy (no signature check) has no non-test caller; validateRoutineCount is read only to size the verifier pool", 5)
	allowed := map[string]bool{"chain/app/evm.exeWithCPUParallelVeirfy": true, "chain/app/evm.exeWithCPUSerialVeirfy": true, "chain/app/evm.execTx": true}
	n := 0
	for _, fn := range c.P.RepoFuncs() {
		f := c.Fn(fn)
		for _, ci := range f.Calls() {
			cc := ci.Common()
			if cc.IsInvoke() || cc.StaticCallee() != nil {
				continue
			}
			tn := namedType(cc.Value.Type())
			if tn != "chain/app/evm.ExecFunc" && tn != "chain/app/evm.EndExecFunc" && tn != "chain/app/evm.BeginExecFunc" {
				continue
			}
			n++
			name := core.Short(fname(f))
			_, isGo := ci.(*ssa.Go)
			ok := allowed[name] && !isGo && fn.Parent() == nil
			c.R.Ob(rule, "callback-call:"+tn+"-in:"+name, ok, c.Pos(ci), fname(f), "transaction callbacks must run on the single in-order executor loop")
			if tn == "chain/app/evm.ExecFunc" && name == "chain/app/evm.exeWithCPUParallelVeirfy" {
				c.R.Ob(rule, "exec:index=outer-loop-index", callArg(ci, 0) == "phi((loop + 1)|0)", c.Pos(ci), fname(f), "exec must be given the block position of the transaction, got "+callArg(ci, 0))
			}
		}
	}
	if n == 0 {
		c.R.Undecided(rule, "callback-calls", "-", "", "no call through ExecFunc/EndExecFunc found")
	}
	// uses of validateRoutineCount
	for _, fn := range c.P.FuncsOfPkg("chain/app/evm") {
		f := c.Fn(fn)
		for _, b := range fn.Blocks {
			for _, ins := range b.Instrs {
				u, ok := ins.(*ssa.UnOp)
				if !ok || !f.Live(ins) {
					continue
				}
				if g, ok := u.X.(*ssa.Global); ok && g.Name() == "validateRoutineCount" {
					okUse := true
					for _, r := range *u.Referrers() {
						bo, isBo := r.(*ssa.BinOp)
						if !isBo {
							okUse = false
							continue
						}
						otherV := bo.X
						if bo.X == ssa.Value(u) {
							otherV = bo.Y
						}
						_, isConst := otherV.(*ssa.Const)
						if !(isConst || cfgx.Expr(otherV) == "phi((loop + 1)|0)") {
							okUse = false
						}
					}
					c.R.Ob(rule, "validateRoutineCount-use-in:"+core.Short(fname(f)), okUse && core.Short(fname(f)) == "chain/app/evm.exeWithCPUParallelVeirfy", c.Pos(u), fname(f), "the worker count may only bound itself and the worker-spawning loop; comparing it with anything else makes execution depend on the machine")
				}
			}
		}
	}
}

// publishOrderRule: shared by C05-R4 and C09-R5.
func publishOrderRule(c *Ctx, id string) {
	rule := c.R.Rule(id, "publish order: in every function that publishes a terminal status (Checked/Failed) of an appTx with atomic.StoreInt32/CompareAndSwapInt32, no plain store to another field of that appTx is reachable after the atomic store (the executor may read the slot as soon as the status is visible)", 4)
	n := 0
	for _, fn := range c.P.FuncsOfPkg("chain/app/evm") {
		f := c.Fn(fn)
		for _, ci := range f.CallsTo(cfgx.Named("sync/atomic.StoreInt32")) {
			tgt := callArg(ci, 0)
			if !strings.HasSuffix(tgt, ".status") {
				continue
			}
			val := callArg(ci, 1)
			if val != "3" && val != "4" {
				continue
			}
			n++
			base := strings.TrimSuffix(tgt, ".status")
			late := ""
			for _, st := range f.Stores(func(a string) bool { return strings.HasPrefix(a, base+".") && a != tgt }) {
				if f.Reaches(ci, st) {
					late = cfgx.AddrExpr(st.Addr)
				}
			}
			stage := "before-signature-check"
			for _, sc := range f.CallsTo(cfgx.Named("eth/core/types.Sender")) {
				if f.Dominates(sc, ci) {
					stage = "after-signature-check"
				}
			}
			c.R.Ob(rule, fmt.Sprintf("%s:status=%s(%s):no-late-store", core.Short(fname(f)), val, stage), late == "", c.Pos(ci), fname(f),
				"field "+late+" is written after the terminal status was published: the executor can observe Failed with err==nil and report a bad-signature transaction as valid")
		}
	}
	if n == 0 {
		c.R.Undecided(rule, "publish-sites", "-", "", "no terminal status publication found")
	}
}

// R5 nondeterminism lint ---------------------------------------------------------------------------
func c05R5(c *Ctx) {
	rule := c.R.Rule("R5", "nondeterminism-source lint over the AnnChain-specific execution, commit, hashing and validator-set code (chain/app/evm, gemmill/state, gemmill/plugin, gemmill/types, go-merkle): every `range` over a map and every use of time.Now/Since, math/rand, crypto/rand, runtime.NumCPU is in the reviewed table with a reason why it cannot reach replicated state", 10)
	reviewed := map[string]string{
		// map ranges
		"maprange:chain/app/evm.(*EVMApp).OnExecute":                "counts duplicates into a local that is discarded (commutative, dead)",
		"maprange:gemmill/modules/go-merkle.MakeSortedKVPairs":      "collects then sorts by key before hashing",
		"maprange:gemmill/modules/go-merkle.SimpleHashFromMap":      "delegates to MakeSortedKVPairs (sorted)",
		"maprange:gemmill/types.(*EventCache).Flush":                "event delivery, not replicated state",
		"maprange:chain/app/evm.(*ethTxPool).demoteUnexecutables":   "mempool content is not replicated state",
		"maprange:chain/app/evm.(*ethTxPool).promoteExecutables":    "mempool content is not replicated state",
		"maprange:chain/app/evm.(*ethTxPool).Flush":                 "mempool",
		"maprange:chain/app/evm.(*ethTxPool).Reap":                  "proposer-local choice of transactions; the proposed block, not the pool, is replicated",
		"maprange:chain/app/evm.(*ethTxPool).safeGetTxsFromPending": "proposer-local choice of transactions",
		"maprange:chain/app/evm.(*ethTxPool).Update":                "mempool",
		"maprange:chain/app/evm.(*ethTxPool).updateToState":         "mempool",
		"maprange:chain/app/evm.(*ethTxPool).Size":                  "mempool statistics",
		"maprange:chain/app/evm.(*ethTxPool).TxsFrontWait":          "mempool",
		"maprange:chain/app/evm.(*txSortedMap).Filter":              "mempool",
		"maprange:chain/app/evm.(*txSortedMap).Cap":                 "mempool",
		"maprange:chain/app/evm.(*txSortedMap).Flatten":             "result is sorted by nonce before use",
		"maprange:chain/app/evm.(*txSortedMap).Forward":             "mempool",
		// clocks / randomness
		"time:gemmill/state.(*TPSCalculator).AddRecord":       "metrics",
		"time:gemmill/state.(*TPSCalculator).TPS":             "metrics",
		"time:gemmill/state.NewTPSCalculator":                 "metrics",
		"time:gemmill/types.MakeBlock":                        "proposer stamps the block time; the value is part of the proposed block, which is what is replicated",
		"time:gemmill/types.RandValidator":                    "test helper",
		"time:chain/app/evm.exeWithCPUParallelVeirfy$1":       "60s watchdog timer of the quit channel; does not influence results",
		"time:chain/app/evm.validateRoutine":                  "1µs back-off sleep while waiting for decoding",
		"time:chain/app/evm.(*ethTxPool).addWaiting":          "mempool heartbeat timestamps",
		"time:chain/app/evm.(*ethTxPool).handleAdminOP":       "mempool",
		"time:chain/app/evm.(*ethTxPool).removeExpiredTxs":    "mempool eviction",
		"time:chain/app/evm.(*ethTxPool).evictionLoop":        "mempool eviction",
		"maprange:chain/app/evm.(*ethTxPool).addWaiting":      "mempool",
		"maprange:chain/app/evm.(*ethTxPool).loop":            "mempool eviction",
		"maprange:chain/app/evm.(*ethTxPool).state":           "mempool statistics",
		"time:chain/app/evm.(*ethTxPool).loop":                "mempool eviction ticker",
		"maprange:chain/app/evm.(*kvBatch).saveKeyHistory":    "puts one size record per distinct key into a write batch: order-insensitive",
		"maprange:gemmill/modules/go-merkle.(*nodeDB).Commit": "deletes distinct keys in a write batch: order-insensitive (IAVL store is not used by the EVM application)",
		"rand:gemmill/types.TxsLenForTest":                    "test-data generator (blockcache_other.go, 'for test code')",
		"rand:gemmill/types.TxsNumForTest":                    "test-data generator",
		"rand:gemmill/types.randomTo2Nums":                    "test-data generator",
		"time:gemmill/state.MakeGenesisState":                 "fills a missing genesis time once at chain creation; block time is not validated (C02: Time exempt)",
		"numcpu:chain/app/evm.init":                           "initial worker count; uses checked by R3",
		"rand:gemmill/types.RandValidator":                    "test helper",
	}
	pkgs := []string{"chain/app/evm", "gemmill/state", "gemmill/plugin", "gemmill/types", "gemmill/modules/go-merkle"}
	found := map[string]string{}
	foundFn := map[string]*ssa.Function{}
	for _, pk := range pkgs {
		for _, fn := range c.P.FuncsOfPkg(pk) {
			if fn.Blocks == nil {
				continue
			}
			f := c.Fn(fn)
			name := core.Short(fname(f))
			for _, b := range fn.Blocks {
				for _, ins := range b.Instrs {
					if !f.Live(ins) {
						continue
					}
					switch x := ins.(type) {
					case *ssa.Range:
						if _, isMap := x.X.Type().Underlying().(*types.Map); isMap {
							found["maprange:"+name] = c.Pos(x)
							foundFn["maprange:"+name] = fn
						}
					case ssa.CallInstruction:
						n := cfgx.CalleeName(x)
						if strings.HasSuffix(n, ".init") {
							continue
						}
						switch {
						case n == "time.Now" || n == "time.Since" || n == "time.After" || n == "time.NewTimer" || n == "time.Sleep" || n == "time.NewTicker" || n == "time.Tick":
							found["time:"+name] = c.Pos(x)
							foundFn["time:"+name] = fn
						case strings.HasPrefix(n, "math/rand.") || strings.HasPrefix(n, "crypto/rand.") || strings.Contains(n, "go-common.Rand"):
							found["rand:"+name] = c.Pos(x)
						case n == "runtime.NumCPU" || n == "runtime.GOMAXPROCS":
							found["numcpu:"+name] = c.Pos(x)
						}
					}
				}
			}
		}
	}
	var keys []string
	for k := range found {
		keys = append(keys, k)
	}
	sort.Strings(keys)
	for _, k := range keys {
		why, ok := reviewed[k]
		if !ok && foundFn[k] != nil {
			// an unexported helper called only from functions reviewed for the same kind of source
			kind := k[:strings.Index(k, ":")+1]
			allowed := map[string]bool{}
			for rk := range reviewed {
				if strings.HasPrefix(rk, kind) {
					allowed[strings.TrimPrefix(rk, kind)] = true
				}
			}
			if c.helperOnlyCalledFrom(foundFn[k], allowed) {
				why, ok = "unexported helper called only from reviewed functions of the same kind", true
			}
		}
		if ok {
			c.R.Ob(rule, k, true, found[k], "", "reviewed: "+why)
		} else {
			c.R.Ob(rule, k, false, found[k], "", "unreviewed nondeterminism source in replicated-execution code: iteration order / clock / randomness / CPU count may reach hashes or receipts")
		}
	}
}

func c05R6(c *Ctx) {
	rule := c.R.Rule("R6", "receipts hash inputs: SaveReceipts returns merkle.SimpleHashFromHashes(savedReceipts) where savedReceipts is appended to only inside a range over app.receipts (first) and a range over app.kvs (second), in slice order; OnCommit returns that hash as ReceiptsHash and the committed root as AppHash", 4)
	f := c.Anchor(rule, evmT+".SaveReceipts")
	if f != nil {
		hs := f.CallsTo(cfgx.Named("gemmill/modules/go-merkle.SimpleHashFromHashes"))
		c.R.Ob(rule, "SaveReceipts:hash-site", len(hs) == 1, c.P.Pos(f.F.Pos()), fname(f), "one SimpleHashFromHashes call expected")
		var appends []ssa.CallInstruction
		for _, ci := range f.CallsTo(cfgx.Named("builtin:append")) {
			if strings.Contains(callArg(ci, 0), "make([][]byte,0") {
				appends = append(appends, ci)
			}
		}
		srcs := []string{}
		for _, ci := range appends {
			gs := strings.Join(f.AllGuardForms(ci), " ")
			switch {
			case strings.Contains(gs, "< len(a0.receipts))"):
				srcs = append(srcs, "receipts")
			case strings.Contains(gs, "< len(a0.kvs))"):
				srcs = append(srcs, "kvs")
			default:
				srcs = append(srcs, "other")
			}
		}
		sort.Strings(srcs)
		c.R.Ob(rule, "SaveReceipts:inputs={receipts,kvs}", strings.Join(srcs, ",") == "kvs,receipts", c.P.Pos(f.F.Pos()), fname(f), "hash inputs appended under ranges over: "+strings.Join(srcs, ","))
		for _, r := range nilErrReturns(f) {
			v := cfgx.Expr(f.ReturnValues(r)[0])
			c.R.Ob(rule, "SaveReceipts:returns-that-hash", strings.HasPrefix(v, "gemmill/modules/go-merkle.SimpleHashFromHashes("), c.Pos(r), fname(f), "returns "+shorten(v))
		}
	}
	if g := c.Anchor(rule, evmT+".OnCommit"); g != nil {
		okA, okR := false, false
		for _, st := range g.Stores(func(a string) bool { return strings.HasSuffix(a, ".AppHash") || strings.HasSuffix(a, ".ReceiptsHash") }) {
			v := cfgx.Expr(st.Val)
			if strings.HasSuffix(cfgx.AddrExpr(st.Addr), ".AppHash") && strings.Contains(v, "(*StateDB).Commit(a0.currentState,true)#0") {
				okA = true
			}
			if strings.HasSuffix(cfgx.AddrExpr(st.Addr), ".ReceiptsHash") && strings.Contains(v, "SaveReceipts(a0)#0") {
				okR = true
			}
		}
		c.R.Ob(rule, "OnCommit:result=(committed-root, receipts-hash)", okA && okR, c.P.Pos(g.F.Pos()), fname(g), "CommitResult must carry the committed state root and SaveReceipts' hash")
	}
}

// c05R7: shared mutable package state. Block execution reads package-level variables (evmConfig, signer
// constants, worker count ...) while RPC queries and CheckTx run on other goroutines; a package-level
// variable of the execution packages that is written after initialisation makes the result of a block
// depend on what else the process is doing (or on what it executed before).
func c05R7(c *Ctx) {
	rule := c.R.Rule("R7", "no mutable package state behind execution: a package-level variable of chain/app/evm (the application) or gemmill/state is stored to only by the package initialiser, or the store is in the reviewed table (process-wide switches set once at start-up, the self-clamping worker count); in particular evmConfig, which every block transaction and every RPC query share, is never written", 3)
	reviewed := map[string]string{
		"chain/app/evm.validateRoutineCount@chain/app/evm.exeWithCPUParallelVeirfy": "clamped to a constant when out of range (idempotent; R3 shows the value influences only the number of verifier goroutines)",
	}
	nglob, nstores := 0, 0
	for _, rel := range []string{"chain/app/evm", "gemmill/state"} {
		sp := c.P.SSAPkg(rel)
		if sp == nil {
			c.R.Missing(rule, rel)
			continue
		}
		for _, m := range sp.Members {
			if _, ok := m.(*ssa.Global); ok {
				nglob++
			}
		}
		for _, fn := range c.P.FuncsOfPkg(rel) {
			if fn.Blocks == nil || fn.Name() == "init" || strings.HasPrefix(fn.Name(), "init#") {
				continue
			}
			f := c.Fn(fn)
			for _, b := range fn.Blocks {
				for _, ins := range b.Instrs {
					st, ok := ins.(*ssa.Store)
					if !ok || !f.Live(ins) {
						continue
					}
					g := rootGlobal(st.Addr)
					if g == nil || g.Pkg == nil || !strings.HasPrefix(g.Pkg.Pkg.Path(), core.Mod+"/") {
						continue
					}
					gp := core.Short(g.Pkg.Pkg.Path())
					if gp != "chain/app/evm" && gp != "gemmill/state" {
						continue
					}
					nstores++
					key := gp + "." + g.Name() + "@" + core.Short(fname(f))
					why, ok := reviewed[key]
					c.R.Ob(rule, "store:"+key, ok, c.Pos(st), fname(f), "package-level variable written outside the package initialiser: every goroutine of the process (block execution, RPC queries, CheckTx) shares it; "+why)
				}
			}
		}
	}
	c.R.Ob(rule, "globals-examined", nglob >= 10, "-", "", fmt.Sprintf("%d package-level variables, %d stores outside initialisers", nglob, nstores))
	// evmConfig is handed by value to the EVM on both paths
	if g := globalOf(c, "chain/app/evm", "evmConfig"); g != nil {
		uses := 0
		for _, fn := range c.P.FuncsOfPkg("chain/app/evm") {
			for _, b := range fn.Blocks {
				for _, ins := range b.Instrs {
					if ld, isLoad := ins.(*ssa.UnOp); isLoad && rootGlobal(ld.X) == g {
						uses++
					}
				}
			}
		}
		c.R.Ob(rule, "evmConfig:read-by-execution-and-query", uses >= 2, c.P.Pos(g.Pos()), "", fmt.Sprintf("%d reads", uses))
	} else {
		c.R.Missing(rule, "chain/app/evm.evmConfig")
	}
}

func rootGlobal(v ssa.Value) *ssa.Global {
	for i := 0; i < 8; i++ {
		switch x := v.(type) {
		case *ssa.Global:
			return x
		case *ssa.FieldAddr:
			v = x.X
		case *ssa.IndexAddr:
			v = x.X
		default:
			return nil
		}
	}
	return nil
}

func globalOf(c *Ctx, rel, name string) *ssa.Global {
	sp := c.P.SSAPkg(rel)
	if sp == nil {
		return nil
	}
	g, _ := sp.Members[name].(*ssa.Global)
	return g
}

// c05R8: read-only queries run on a state of their own.
func c05R8(c *Ctx) {
	rule := c.R.Rule("R8", "queries do not share mutable state: the StateDB given to vm.NewEVM in queryContract is created for that query — app.state.Copy() evaluated in the call, or a state opened with New(...) for a past height — never a field or a cached object that a previous query's dry run has already modified", 2)
	f := c.Anchor(rule, evmT+".queryContract")
	if f == nil {
		return
	}
	n := 0
	for _, ci := range f.CallsTo(cfgx.Named("eth/core/vm.NewEVM")) {
		n++
		st := ci.Common().Args[1]
		for {
			if mi, isMI := st.(*ssa.MakeInterface); isMI {
				st = mi.X
				continue
			}
			if ch, isCh := st.(*ssa.ChangeInterface); isCh {
				st = ch.X
				continue
			}
			break
		}
		ok := false
		if call, isCall := st.(*ssa.Call); isCall {
			cn := cfgxCallee(call)
			ok = cn == "eth/core/state.(*StateDB).Copy" || cn == "eth/core/state.New"
		}
		if ex, isEx := st.(*ssa.Extract); isEx {
			if call, isCall := ex.Tuple.(*ssa.Call); isCall && cfgxCallee(call) == "eth/core/state.New" {
				ok = true
			}
		}
		c.R.Ob(rule, "queryContract:NewEVM-state-is-fresh", ok, c.Pos(ci), fname(f), "query state is "+shorten(exprOf(st))+": a state object shared between queries keeps the writes of an earlier dry run, so the answer depends on which queries this replica served")
	}
	if n == 0 {
		c.R.Undecided(rule, "queryContract:NewEVM", c.P.Pos(f.F.Pos()), fname(f), "no EVM constructed")
	}
}

// c05R9: no process-lifetime memo behind execution.  R7 covers package-level variables; the same
// dependence on process history arises from a map kept in a field of one of the application's
// objects and filled while blocks are executed or committed: a replica that was restarted starts
// with it empty, a replica that ran continuously does not, so whatever is derived from it (history
// indices, cached headers, memoised sizes) can differ between the two.  Every map-typed field of a
// struct of chain/app/evm that is updated outside a constructor is therefore in the reviewed table,
// with the reason why its content does not outlive one block (or one call).
func c05R9(c *Ctx) {
	rule := c.R.Rule("R9", "no process-lifetime memo behind execution: every map held in a field of a struct of chain/app/evm and updated (m[k]=v, delete) by a function of the package is in the reviewed table with the reason why its content does not outlive one block or one call, or is not an input of execution (a map that survives blocks in memory is empty on a restarted replica and filled on a continuous one)", 1)
	reviewed := map[string]string{
		"kvBatch.keys": "the batch is created by NewBatch for one commit (SaveReceipts) and dropped after commit(); keys only memoises the sizes read from the database within that batch",
	}
	const pool = "transaction-pool bookkeeping: the pool is local by design and is not an input of block execution or of queries (a block carries its own transactions; OnCommit only tells the pool what was included); the pool itself is decided under C19"
	for _, k := range []string{"ethTxPool.all", "ethTxPool.pending", "ethTxPool.waiting", "ethTxPool.waitingBeats", "txSortedMap.items"} {
		reviewed[k] = pool
	}
	nupd := 0
	seen := map[string]bool{}
	for _, fn := range c.P.FuncsOfPkg("chain/app/evm") {
		if fn.Blocks == nil {
			continue
		}
		f := c.Fn(fn)
		for _, b := range fn.Blocks {
			for _, ins := range b.Instrs {
				var mv ssa.Value
				switch x := ins.(type) {
				case *ssa.MapUpdate:
					mv = x.Map
				case *ssa.Call:
					if bi, ok := x.Call.Value.(*ssa.Builtin); ok && bi.Name() == "delete" && len(x.Call.Args) > 0 {
						mv = x.Call.Args[0]
					}
				}
				if mv == nil || !f.Live(ins) {
					continue
				}
				ld, ok := mv.(*ssa.UnOp)
				if !ok {
					continue
				}
				fa, ok := ld.X.(*ssa.FieldAddr)
				if !ok {
					continue
				}
				pt, ok := fa.X.Type().Underlying().(*types.Pointer)
				if !ok {
					continue
				}
				named, ok := pt.Elem().(*types.Named)
				if !ok || named.Obj().Pkg() == nil || core.Short(named.Obj().Pkg().Path()) != "chain/app/evm" {
					continue
				}
				st, ok := named.Underlying().(*types.Struct)
				if !ok {
					continue
				}
				nupd++
				key := named.Obj().Name() + "." + st.Field(fa.Field).Name()
				why, rev := reviewed[key]
				if seen[key+"@"+fname(f)] {
					continue
				}
				seen[key+"@"+fname(f)] = true
				c.R.Ob(rule, "map-field-update:"+key+"@"+core.Short(fname(f)), rev, c.Pos(ins), fname(f), "a map in a field of an application object is updated here; unless its owner lives for one block or one call, a restarted replica sees it empty while a continuous one sees it filled; "+why)
			}
		}
	}
	c.R.Ob(rule, "map-field-updates-examined", nupd >= 1, "-", "", fmt.Sprintf("%d updates of struct-held maps in chain/app/evm", nupd))
}
