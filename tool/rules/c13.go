package rules

import (
	"strings"

	"golang.org/x/tools/go/ssa"

	"annverif/cfgx"
	"annverif/core"
)

func init() {
	Registry["C13"] = c13
	Metas["C13"] = Meta{Level: "other", NeedCG: true,
		Technique: "static analysis: edge-dominance of verify-before-execute in the sync loop, closure free-variable provenance of the verifier's validator set, sibling commit-path order, nil-ness obligations on the peer-supplied commit",
		Explain:   "Static analysis of fast sync. Decided: (R1) in poolRoutine the executor call and PopRequest are edge-dominated by a nil result of the verifier called with BlockID{first.Hash(), parts header of first}, first.Height and second.LastCommit of the same peeked pair, and the error edge re-requests the block; (R2) the verifier closure installed in BFT mode reads stateM.Validators and stateM.ChainID inside the closure (no captured snapshot) and the executor closure applies blocks to that same stateM; (R3) the executor performs SaveBlock < ApplyBlock < Save (C06-R2) and ApplyBlock re-validates the block (C02-R3); (R4) the peer-supplied commit is nil-checked before it is dereferenced and the commit accessors tolerate a commit whose precommits are all nil; (R6) VerifyCommit's guard list (shared with C02-R4); (R5) a block is accepted into the pool only from the peer it was requested from and only once. (R7) the requester's block and peer id are read only under its mutex (they are reset asynchronously when the serving peer goes away). NOT decided: equality of the end state with live consensus; behaviour under peer timeouts.",
		Assume:    []string{"VerifyCommit is correct (C02-R4/C15-R7)"},
	}
}

const bcrT = "gemmill/blockchain.(*BlockchainReactor)"

func c13(c *Ctx) {
	c13R1(c)
	c13R2(c)
	c13R3(c)
	nilCommitRule(c, "R4")
	c13R5(c)
	verifyCommitRule(c, "R6")
	requesterGuardRule(c, "R7")
	fastSyncHandoverRule(c, "R8")
	quorumRule(c, "R9")
	poolStartObligations(c, c.R.Rule("R10", "fast sync resumes at the state's height: the height handed to NewBlockPool is store.Height()+1 read after the start-up adjustment of the store (a block saved but not applied before a crash is fetched and applied again, not skipped)", 1))
	shared(c, "C16", func(c *Ctx) { valsetCacheRule(c, "R2") })
	shared(c, "C14", func(c *Ctx) { uniformApplicationRule(c, "R5") })
	shared(c, "C02", c02R2)
}

func c13R1(c *Ctx) {
	rule := c.R.Rule("R1", "verify before execute: in poolRoutine the calls through bcR.blockExecuter and pool.PopRequest are edge-dominated by blockVerifier(BlockID{first.Hash(), first.MakePartSet().Header()}, first.Height, second.LastCommit) == nil for the same peeked (first, second); the failing edge calls RedoRequest(first.Height)", 8)
	f := c.Anchor(rule, bcrT+".poolRoutine")
	if f == nil {
		return
	}
	first := "gemmill/blockchain.(*BlockPool).PeekTwoBlocks(a0.pool)#0"
	second := "gemmill/blockchain.(*BlockPool).PeekTwoBlocks(a0.pool)#1"
	vs := f.CallsTo(cfgx.Named("dyn:a0.blockVerifier"))
	ex := f.CallsTo(cfgx.Named("dyn:a0.blockExecuter"))
	if len(vs) != 1 || len(ex) != 1 {
		c.R.Undecided(rule, "sites", c.P.Pos(f.F.Pos()), fname(f), "expected one verifier and one executor call")
		return
	}
	v, e := vs[0], ex[0]
	vok := "(" + cfgx.Expr(v.(*ssa.Call)) + " == nil)"
	c.R.Ob(rule, "execute⊣verified", f.HasGuard(e, cfgx.Equals(vok)), c.Pos(e), fname(f), "a block is executed although its commit did not verify; "+guardsText(f, e))
	for _, p := range f.CallsTo(cfgx.Named("gemmill/blockchain.(*BlockPool).PopRequest")) {
		c.R.Ob(rule, "PopRequest⊣verified", f.HasGuard(p, cfgx.Equals(vok)), c.Pos(p), fname(f), "the request is retired although the block did not verify")
	}
	// verifier arguments
	c.R.Ob(rule, "verify:height=first.Height", callArg(v, 1) == first+".Header.Height", c.Pos(v), fname(f), "got "+shorten(callArg(v, 1)))
	c.R.Ob(rule, "verify:commit=second.LastCommit", callArg(v, 2) == second+".LastCommit", c.Pos(v), fname(f), "block h must be justified by the LastCommit of block h+1; got "+shorten(callArg(v, 2)))
	hashOK, partsOK := false, false
	if al, ok := v.Common().Args[0].(*ssa.UnOp); ok {
		for _, st := range f.Stores(func(a string) bool {
			return strings.HasPrefix(a, cfgx.Expr(al.X)+".") || strings.HasPrefix(a, "local:complit.")
		}) {
			a := cfgx.AddrExpr(st.Addr)
			if strings.HasSuffix(a, ".Hash") && cfgx.Expr(st.Val) == "gemmill/types.(*Block).Hash("+first+")" && f.Dominates(st, v) {
				hashOK = true
			}
			if strings.HasSuffix(a, ".PartsHeader") && strings.HasPrefix(cfgx.Expr(st.Val), "gemmill/types.(*PartSet).Header(gemmill/types.(*Block).MakePartSet("+first+",") && f.Dominates(st, v) {
				partsOK = true
			}
		}
	}
	c.R.Ob(rule, "verify:blockID.Hash=first.Hash()", hashOK, c.Pos(v), fname(f), "the verified block id must be recomputed from the received block")
	c.R.Ob(rule, "verify:blockID.Parts=first.MakePartSet().Header()", partsOK, c.Pos(v), fname(f), "the parts header must be recomputed from the received block")
	// executor arguments
	okE := callArg(e, 0) == first && strings.HasPrefix(callArg(e, 1), "gemmill/types.(*Block).MakePartSet("+first+",") && callArg(e, 2) == second+".LastCommit"
	c.R.Ob(rule, "execute:args=(first, parts(first), second.LastCommit)", okE, c.Pos(e), fname(f), "the executed block must be the verified one")
	// both blocks present
	c.requireGuards(rule, "verify", f, v, []WantGuard{
		{"first!=nil", cfgx.Equals("(" + first + " != nil)")},
		{"second!=nil", cfgx.Equals("(" + second + " != nil)")},
	})
	// failing edge re-requests
	redo := false
	for _, r := range f.CallsTo(cfgx.Named("gemmill/blockchain.(*BlockPool).RedoRequest")) {
		if f.HasGuard(r, cfgx.Equals("("+cfgx.Expr(v.(*ssa.Call))+" != nil)")) && callArg(r, 1) == first+".Header.Height" {
			redo = true
		}
	}
	c.R.Ob(rule, "verify-failed→RedoRequest(first.Height)", redo, c.Pos(v), fname(f), "a block that fails verification must be requested again (from another peer)")
	// who may write the verifier / executor fields
	for _, fld := range []string{"blockVerifier", "blockExecuter"} {
		for _, fn := range c.P.RepoFuncs() {
			g := c.Fn(fn)
			for _, st := range g.FieldStores("gemmill/blockchain.BlockchainReactor", fld) {
				n := core.Short(fname(g))
				ok := n == bcrT+".SetBlockVerifier" || n == bcrT+".SetBlockExecuter"
				c.R.Ob(rule, fld+"-writer:"+n, ok, c.Pos(st), fname(g), "the sync loop's "+fld+" may be installed only through its setter")
			}
		}
	}
}

func c13R2(c *Ctx) {
	rule := c.R.Rule("R2", "live validator set: the closure installed by SetBlockVerifier on the non-raft branch calls VerifyCommit on stateM.Validators with stateM.ChainID, both loaded inside the closure from the captured *State (no snapshot taken when the node was assembled); the executor closure applies blocks to that same stateM", 4)
	f := c.Anchor(rule, "gemmill.(*Angine).assembleStateMachine")
	if f == nil {
		return
	}
	n := 0
	for _, ci := range f.CallsTo(cfgx.Named(bcrT + ".SetBlockVerifier")) {
		mc, ok := ci.Common().Args[1].(*ssa.MakeClosure)
		if !ok {
			// constant function (raft branch: trusts the leader's log)
			fn, isFn := ci.Common().Args[1].(*ssa.Function)
			raft := f.HasGuard(ci, func(g string) bool { return strings.Contains(g, `"raft"`) })
			c.R.Ob(rule, "verifier:non-closure", isFn && raft, c.Pos(ci), fname(f), "a constant verifier is accepted only on the raft branch (leader-trusting mode; the property is about the BFT mode)")
			_ = fn
			continue
		}
		cl := c.Fn(mc.Fn.(*ssa.Function))
		vcs := cl.CallsTo(cfgx.Named(valsT + ".VerifyCommit"))
		if len(vcs) == 0 {
			continue
		}
		n++
		vc := vcs[0]
		c.R.Ob(rule, "verifier:receiver=stateM.Validators(live)", callArg(vc, 0) == "fv:stateM.Validators", c.Pos(vc), fname(cl), "VerifyCommit receiver is "+callArg(vc, 0)+": a set captured outside the closure goes stale at the first validator-set change")
		c.R.Ob(rule, "verifier:chainID=stateM.ChainID", callArg(vc, 1) == "fv:stateM.ChainID", c.Pos(vc), fname(cl), "chain id "+callArg(vc, 1))
		c.R.Ob(rule, "verifier:args-forwarded", callArg(vc, 2) == "a0" && callArg(vc, 3) == "a1" && callArg(vc, 4) == "a2", c.Pos(vc), fname(cl), "block id, height and commit must be the sync loop's")
		for _, r := range cl.Returns() {
			c.R.Ob(rule, "verifier:returns-VerifyCommit-result", cfgx.Expr(cl.ReturnValues(r)[0]) == cfgx.Expr(vc.(*ssa.Call)), c.Pos(r), fname(cl), "the verification result must be returned unchanged")
		}
		// the captured stateM is assembleStateMachine's parameter
		for i, fv := range mc.Fn.(*ssa.Function).FreeVars {
			if fv.Name() == "stateM" {
				c.R.Ob(rule, "verifier:stateM=parameter", strings.HasPrefix(cfgx.Expr(mc.Bindings[i]), "a1") || cfgx.AddrExpr(mc.Bindings[i]) == "local:stateM", c.Pos(ci), fname(f), "captured "+cfgx.AddrExpr(mc.Bindings[i]))
			}
		}
	}
	if n == 0 {
		c.R.Undecided(rule, "verifier-closure", c.P.Pos(f.F.Pos()), fname(f), "no VerifyCommit-calling verifier closure installed")
	}
	for _, ci := range f.CallsTo(cfgx.Named(bcrT + ".SetBlockExecuter")) {
		if mc, ok := ci.Common().Args[1].(*ssa.MakeClosure); ok {
			cl := c.Fn(mc.Fn.(*ssa.Function))
			ok2 := false
			for _, ab := range cl.CallsTo(cfgx.Named("gemmill/state.(*State).ApplyBlock")) {
				ok2 = callArg(ab, 0) == "fv:stateM"
			}
			c.R.Ob(rule, "executor:applies-to-stateM", ok2, c.Pos(ci), fname(cl), "the executor must apply blocks to the state whose validator set the verifier reads")
		}
	}
}

func c13R3(c *Ctx) {
	// shared implementations under this property's ids
	c06R2as(c, "R3")
}

func c13R5(c *Ctx) { requestBookkeepingRule(c, "R5") }

// requestBookkeepingRule is shared by C13-R5 and C08-R10 (a duplicate block response must be dropped:
// setBlock's notification send is unbuffered-once and happens under pool.mtx).
func requestBookkeepingRule(c *Ctx, id string) {
	rule := c.R.Rule(id, "request bookkeeping: BlockPool.AddBlock accepts a block only through bpRequester.setBlock, which stores it only when no block is held yet and the sending peer is the one the height was requested from", 3)
	if f := c.Anchor(rule, "gemmill/blockchain.(*bpRequester).setBlock"); f != nil {
		sts := f.FieldStores("gemmill/blockchain.bpRequester", "block")
		if len(sts) != 1 {
			c.R.Undecided(rule, "setBlock:store", c.P.Pos(f.F.Pos()), fname(f), "expected one store of the block")
		}
		for _, st := range sts {
			c.requireGuards(rule, "setBlock:store", f, st, []WantGuard{
				{"no-block-yet", cfgx.Equals("(a0.block == nil)")},
				{"from-requested-peer", cfgx.Equals("(a0.peerID == a2)")},
			})
		}
	}
	for _, fn := range c.P.RepoFuncs() {
		g := c.Fn(fn)
		for _, st := range g.FieldStores("gemmill/blockchain.bpRequester", "block") {
			n := core.Short(fname(g))
			ok := n == "gemmill/blockchain.(*bpRequester).setBlock" || (cfgx.IsNilConst(st.Val) && (strings.HasSuffix(n, ".reset") || strings.HasSuffix(n, ".redo") || strings.HasSuffix(n, "newBPRequester")))
			c.R.Ob(rule, "bpRequester.block-writer:"+n, ok, c.Pos(st), fname(g), "a requester's block may be set only by setBlock")
		}
	}
}

// requesterGuardRule (C13-R7, C08-R9): the fast-sync requester's block and peer id are written by its
// own goroutine (reset after the peer is removed) and by Receive (setBlock) and read by poolRoutine.
func requesterGuardRule(c *Ctx, id string) {
	rule := c.R.Rule(id, "guarded-by: bpRequester.{block,peerID} are accessed only with bpRequester.mtx held — they are reset asynchronously when the serving peer is removed, so an unlocked read in poolRoutine's path (RedoRequest) races with that reset and feeds a sanity panic on a goroutine without recover", 5)
	guardedByRule(c, rule, []GuardSpec{
		{Type: "gemmill/blockchain.bpRequester", Mutex: "gemmill/blockchain.bpRequester.mtx", Fields: []string{"block", "peerID"},
			Exempt: map[string]string{"gemmill/blockchain.newBPRequester": "constructor: the requester is not shared yet"}},
	})
}

// fastSyncHandoverRule (C13-R8, C04-R10): the fast-sync routine ends with the handover.
func fastSyncHandoverRule(c *Ctx, id string) {
	rule := c.R.Rule(id, "one handover: in poolRoutine the SwitchToConsensus event is fired at most once — no path leads from that call back to it (the routine leaves its loop); a second event resets the running consensus state at the same height and wipes its lock and votes", 1)
	f := c.Anchor(rule, bcrT+".poolRoutine")
	if f == nil {
		return
	}
	n := 0
	for _, ci := range f.CallsTo(cfgx.Named("gemmill/types.FireEventSwitchToConsensus")) {
		n++
		ins := ci.(ssa.Instruction)
		// is the call inside a cycle? (reachable from one of its block's successors)
		again := false
		for _, s := range ins.Block().Succs {
			if len(s.Instrs) > 0 && (s == ins.Block() || f.Reaches(s.Instrs[0], ins)) {
				again = true
			}
		}
		c.R.Ob(rule, "SwitchToConsensus-fired-once", !again, c.Pos(ci), fname(f), "the handover call lies on a cycle of poolRoutine: the routine keeps running and fires it again on the next tick")
	}
	if n == 0 {
		c.R.Undecided(rule, "SwitchToConsensus", c.P.Pos(f.F.Pos()), fname(f), "no handover call")
	}
}
