package rules

func lockOrderRule(c *Ctx, id string) {}
