package rules

import (
	"fmt"
	"go/types"
	"sort"
	"strings"

	"golang.org/x/tools/go/ssa"

	"annverif/cfgx"
	"annverif/core"
)

func init() {
	Registry["C02"] = c02
	Metas["C02"] = Meta{Level: "other", NeedCG: true,
		Technique: "static analysis: struct-field vs hash-map coverage tables, edge-dominance of every header-commitment check on all success paths of the block verifier, validate-before-vote/lock/finalize dominance, VerifyCommit guard list",
		Explain:   "Static analysis of block validation. Decided: (R1) Header.Hash covers every Header field except the documented Extra, each under a distinct key; (R2) on every success path of the installed block verifier (pbft ValidateBlock -> ValidateBasic, ValidateCommit, HasAddress, VerifyCommit) each header commitment {ChainID, Height, NumTxs, LastBlockID, LastCommitHash, DataHash, ValidatorsHash, AppHash, ReceiptsHash, ProposerAddress} has been compared with what it commits to (Time and Extra exempt, with reason); (R3) ValidateBlock dominates the proposal prevote, the lock and SaveBlock/ApplyBlock, and ExecBlock starts with validation; (R4) VerifyCommit's guard list; (R5) the LastCommit is verified against LastValidators with the state's chain id, block id and height-1 on every success path for height>1; MakeCommit gating. (R6/R7) every +2/3 threshold in the node is the strict 3x>2T predicate and every tally counts a validator once (shared with C01/C15). NOT decided: that the compared hashes are collision-free, signature arithmetic, behaviour over schedules.",
		Assume:    []string{"merkle/SimpleHash and wire.BinaryHash are collision-resistant encodings of their inputs", "go-crypto VerifyBytes is sound"},
	}
}

func c02(c *Ctx) {
	c02R1(c)
	c02R2(c)
	c02R3(c)
	verifyCommitRule(c, "R4")
	c15R6rule(c, "R5")
	// "more than two thirds of that height's voting power": the threshold predicate and once-per-validator tallies
	quorumRule(c, "R6")
	tallyRule(c, "R7")
	// the validator set recorded as LastValidators is the one that signed the block: next-set changes never alias it
	uniformApplicationRule(c, "R8")
	c02R9(c)
	shared(c, "C15", c15R2)
	shared(c, "C16", func(c *Ctx) { valsetCacheRule(c, "R2") })
	shared(c, "C06", c06R3)
}

func c15R6rule(c *Ctx, id string) {
	// MakeCommit gating under a different rule id (shared implementation)
	rule := c.R.Rule(id, "commit assembly: MakeCommit only under type==precommit and maj23!=nil; finalizeCommit builds the seen commit from Precommits(CommitRound), the set whose majority gated the commit (C01-R3)", 3)
	f := c.Anchor(rule, vsT+".MakeCommit")
	if f == nil {
		return
	}
	for _, r := range f.Returns() {
		c.requireGuards(rule, "MakeCommit:return", f, r, []WantGuard{
			{"is-precommit-set", cfgx.Equals("(a0.type_ == 2)")},
			{"has-majority", cfgx.Equals("(a0.maj23 != nil)")},
		})
	}
	if g := c.Anchor(rule, csT+".finalizeCommit"); g != nil {
		ok := false
		for _, ci := range g.CallsTo(cfgx.Named("gemmill/blockchain.(*BlockStore).SaveBlock")) {
			ok = callArg(ci, 3) == "gemmill/types.(*VoteSet).MakeCommit(gemmill/consensus/pbft.(*HeightVoteSet).Precommits(a0.RoundState.Votes,a0.RoundState.CommitRound))"
		}
		c.R.Ob(rule, "finalizeCommit:seenCommit", ok, c.P.Pos(g.F.Pos()), fname(g), "seen commit = MakeCommit of Precommits(CommitRound)")
	}
}

// structFields lists the field names of a named struct type in a package.
func structFields(c *Ctx, pkg, typ string) []string {
	pk := c.P.Pkg(pkg)
	if pk == nil || pk.Types == nil {
		return nil
	}
	obj := pk.Types.Scope().Lookup(typ)
	if obj == nil {
		return nil
	}
	st, ok := obj.Type().Underlying().(*types.Struct)
	if !ok {
		return nil
	}
	var out []string
	for i := 0; i < st.NumFields(); i++ {
		out = append(out, st.Field(i).Name())
	}
	return out
}

func c02R1(c *Ctx) {
	rule := c.R.Rule("R1", "hash covers header: the map hashed by Header.Hash has one entry per field of types.Header except Extra (documented: not in the header hash), each key distinct, each value the field itself", 11)
	f := c.Anchor(rule, "gemmill/types.(*Header).Hash")
	fields := structFields(c, "gemmill/types", "Header")
	if f == nil || len(fields) == 0 {
		c.R.Missing(rule, "types.Header")
		return
	}
	covered := map[string]string{} // field -> key
	keys := map[string]int{}
	var hashed ssa.Value
	for _, ci := range f.CallsTo(cfgx.Named("gemmill/modules/go-merkle.SimpleHashFromMap")) {
		hashed = ci.Common().Args[0]
	}
	for _, b := range f.F.Blocks {
		for _, ins := range b.Instrs {
			mu, ok := ins.(*ssa.MapUpdate)
			if !ok || !f.Live(ins) || mu.Map != hashed {
				continue
			}
			k := cfgx.Expr(mu.Key)
			keys[k]++
			v := cfgx.Expr(mu.Value)
			if strings.HasPrefix(v, "a0.") && !strings.Contains(strings.TrimPrefix(v, "a0."), ".") {
				covered[strings.TrimPrefix(v, "a0.")] = k
			}
		}
	}
	if hashed == nil {
		c.R.Undecided(rule, "Hash:map", c.P.Pos(f.F.Pos()), fname(f), "no SimpleHashFromMap call")
		return
	}
	for _, fld := range fields {
		if fld == "Extra" {
			continue
		}
		k, ok := covered[fld]
		c.R.Ob(rule, "hash-covers:"+fld, ok && keys[k] == 1, c.P.Pos(f.F.Pos()), fname(f), fmt.Sprintf("Header.%s must be hashed under a key of its own (key %q)", fld, k))
	}
	// the returned hash is that map's hash
	for _, r := range f.Returns() {
		e := cfgx.Expr(r.Results[0])
		ok := e == "nil" || strings.HasPrefix(e, "gemmill/modules/go-merkle.SimpleHashFromMap(")
		c.R.Ob(rule, "hash-return", ok, c.Pos(r), fname(f), "returns "+shorten(e))
	}
}

func c02R2(c *Ctx) {
	rule := c.R.Rule("R2", "every header commitment is validated: all success returns of Block.ValidateBasic / ValidateCommit / pbft ValidateBlock are reached only through the passing edge of the comparison of each commitment with what it commits to", 14)
	type want struct {
		fn string
		w  []WantGuard
	}
	// ValidateBasic
	if f := c.Anchor(rule, "gemmill/types.(*Block).ValidateBasic"); f != nil {
		for _, r := range nilErrReturns(f) {
			c.requireGuards(rule, "ValidateBasic:success", f, r, []WantGuard{
				{"header-present", cfgx.Equals("(a0.Header != nil)")},
				{"data-present", cfgx.Equals("(a0.Data != nil)")},
				{"last-commit-present", cfgx.Equals("(a0.LastCommit != nil)")},
				{"ChainID", cfgx.Equals("(a0.Header.ChainID == a1)")},
				{"Height", cfgx.Equals("(a0.Header.Height == (a2 + 1))")},
				{"NumTxs", cfgx.Equals("(a0.Header.NumTxs == (len(a0.Data.Txs) + len(a0.Data.ExTxs)))")},
				{"LastBlockID", cfgx.Equals("gemmill/types.(BlockID).Equals(a0.Header.LastBlockID,a3)")},
				{"DataHash", cfgx.Equals("bytes.Equal(a0.Header.DataHash,gemmill/types.(*Data).Hash(a0.Data))")},
				{"AppHash", cfgx.Equals("bytes.Equal(a0.Header.AppHash,a5)")},
				{"ReceiptsHash", cfgx.Equals("bytes.Equal(a0.Header.ReceiptsHash,a6)")},
			})
		}
	}
	if f := c.Anchor(rule, "gemmill/types.(*Block).ValidateCommit"); f != nil {
		for _, r := range nilErrReturns(f) {
			c.requireGuards(rule, "ValidateCommit:success", f, r, []WantGuard{
				{"LastCommitHash", cfgx.Equals("bytes.Equal(a0.Header.LastCommitHash,gemmill/types.(*Commit).Hash(a0.LastCommit))")},
			})
			ok, why := everyPath(f, r, func(g map[string]bool) bool {
				return g["(a0.Header.Height == 1)"] || g["(gemmill/types.(*Commit).ValidateBasic(a0.LastCommit) == nil)"]
			})
			c.R.Ob(rule, "ValidateCommit:success:commit-basic-or-first-block", ok, c.Pos(r), fname(f), why)
		}
	}
	if f := c.Anchor(rule, csT+".ValidateBlock"); f != nil {
		vb := "gemmill/types.(*Block).ValidateBasic(a1,a0.state.ChainID,a0.state.LastBlockHeight,a0.state.LastBlockID,a0.state.LastBlockTime,a0.state.AppHash,a0.state.ReceiptsHash)"
		vc := "gemmill/types.(*ValidatorSet).VerifyCommit(a0.state.LastValidators,a0.state.ChainID,a0.state.LastBlockID,(a1.Header.Height - 1),a1.LastCommit)"
		rets := nilErrReturns(f)
		if len(rets) == 0 {
			c.R.Undecided(rule, "pbft.ValidateBlock:success", c.P.Pos(f.F.Pos()), fname(f), "no success return")
		}
		for _, r := range rets {
			c.requireGuards(rule, "pbft.ValidateBlock:success", f, r, []WantGuard{
				{"ValidateBasic(state linkage, AppHash, ReceiptsHash)", cfgx.Equals("(" + vb + " == nil)")},
				{"ValidateCommit", cfgx.Equals("(gemmill/types.(*Block).ValidateCommit(a1) == nil)")},
				{"ProposerAddress-is-validator", cfgx.Equals("gemmill/types.(*ValidatorSet).HasAddress(a0.state.Validators,a1.Header.ProposerAddress)")},
				{"ValidatorsHash", cfgx.Equals("bytes.Equal(a1.Header.ValidatorsHash,gemmill/types.(*ValidatorSet).Hash(a0.state.Validators))")},
			})
			ok, why := everyPath(f, r, func(g map[string]bool) bool {
				first := g["(a1.Header.Height == 1)"] && g["(len(a1.LastCommit.Precommits) == 0)"]
				later := g["(a1.Header.Height != 1)"] && g["(len(a1.LastCommit.Precommits) == gemmill/types.(*ValidatorSet).Size(a0.state.LastValidators))"] && g["("+vc+" == nil)"]
				return first || later
			})
			c.R.Ob(rule, "pbft.ValidateBlock:success:LastCommit-verified-against-LastValidators", ok, c.Pos(r), fname(f), why)
		}
	}
	// the verifier installed into the state machine is the pbft consensus state
	if f := c.Anchor(rule, "gemmill/state.(*State).validateBlock"); f != nil {
		cs := f.CallsTo(cfgx.Named("iface:gemmill/state.BlockVerifier.ValidateBlock"))
		ok := len(cs) == 1
		if ok && c.P.CG != nil {
			names := map[string]bool{}
			for _, callee := range c.P.Callees(cs[0]) {
				names[core.Short(core.FuncName(callee))] = true
			}
			var ns []string
			for n := range names {
				ns = append(ns, n)
			}
			sort.Strings(ns)
			// every implementation reachable here must be a reviewed verifier
			for _, n := range ns {
				rev := n == csT+".ValidateBlock" || n == "gemmill/consensus/raft.(*ConsensusState).ValidateBlock"
				c.R.Ob(rule, "state.validateBlock:verifier="+n, rev, c.Pos(cs[0]), fname(f), "block verifier implementations: pbft (checked above) and raft (leader-trusting mode; exempt: the property is about the BFT mode)")
			}
			if len(ns) == 0 {
				ok = false
			}
		}
		c.R.Ob(rule, "state.validateBlock:delegates", ok, c.P.Pos(f.F.Pos()), fname(f), "validateBlock must delegate to the installed BlockVerifier")
	}
}

func c02R3(c *Ctx) {
	rule := c.R.Rule("R3", "validate before vote / lock / finalize / execute: ValidateBlock(ProposalBlock)==nil edge-dominates the proposal prevote (C04-R4), the lock (C04-R2) and SaveBlock/ApplyBlock (C01-R3); State.ExecBlock begins with validateBlock whose error aborts; ApplyBlock reaches the commit hook only after ExecBlock succeeded", 4)
	vok := cfgx.Equals("(gemmill/state.(*State).ValidateBlock(a0.state,a0.RoundState.ProposalBlock) == nil)")
	if f := c.Anchor(rule, csT+".defaultDoPrevote"); f != nil {
		for _, ci := range f.CallsTo(cfgx.Named(csT + ".signAddVote")) {
			if strings.Contains(callArg(ci, 2), "ProposalBlock") {
				c.R.Ob(rule, "prevote-proposal⊣valid", f.HasGuard(ci, vok), c.Pos(ci), fname(f), guardsText(f, ci))
			}
		}
	}
	if f := c.Anchor(rule, csT+".enterPrecommit"); f != nil {
		for _, st := range f.FieldStores(rsT, "LockedBlock") {
			if valClass(st.Val) != "nil" {
				c.R.Ob(rule, "lock⊣valid", f.HasGuard(st, vok), c.Pos(st), fname(f), guardsText(f, st))
			}
		}
	}
	if f := c.Anchor(rule, csT+".finalizeCommit"); f != nil {
		for _, ci := range f.CallsTo(cfgx.Named("gemmill/blockchain.(*BlockStore).SaveBlock", "gemmill/state.(*State).ApplyBlock")) {
			c.R.Ob(rule, "finalize:"+shortCallee(ci)+"⊣valid", f.HasGuard(ci, vok), c.Pos(ci), fname(f), guardsText(f, ci))
		}
	}
	if f := c.Anchor(rule, "gemmill/state.(*State).ExecBlock"); f != nil {
		v := f.CallsTo(cfgx.Named("gemmill/state.(*State).validateBlock"))
		ok := len(v) == 1 && callArg(v[0], 1) == "a2"
		if ok {
			for _, ci := range f.Calls() {
				n := cfgx.CalleeName(ci)
				if strings.HasPrefix(n, "iface:gemmill/state.IBlockExecutable.") || n == "gemmill/state.(*State).execBlockOnApp" || n == "gemmill/state.(*State).SetBlockAndValidators" || n == "gemmill/state.(*State).SaveIntermediate" {
					if !f.HasGuard(ci, cfgx.Equals("("+cfgx.Expr(v[0].(*ssa.Call))+" == nil)")) {
						ok = false
					}
				}
			}
		}
		c.R.Ob(rule, "ExecBlock:validate-first", ok, c.P.Pos(f.F.Pos()), fname(f), "every execution/effect step of ExecBlock must be edge-dominated by validateBlock(block)==nil")
	}
	if f := c.Anchor(rule, "gemmill/state.(*State).ApplyBlock"); f != nil {
		ex := f.CallsTo(cfgx.Named("gemmill/state.(*State).ExecBlock"))
		cm := f.CallsTo(cfgx.Named("gemmill/state.(*State).CommitStateUpdateMempool"))
		ok := len(ex) == 1 && len(cm) == 1 && f.HasGuard(cm[0], cfgx.Equals("("+cfgx.Expr(ex[0].(*ssa.Call))+" == nil)"))
		c.R.Ob(rule, "ApplyBlock:commit⊣exec-ok", ok, c.P.Pos(f.F.Pos()), fname(f), "the application commit hook must run only after ExecBlock returned nil")
	}
}

func shortCallee(ci ssa.CallInstruction) string {
	n := cfgx.CalleeName(ci)
	return n[strings.LastIndex(n, ".")+1:]
}
