package rules

import (
	"sort"
	"strings"

	"golang.org/x/tools/go/ssa"

	"annverif/cfgx"
	"annverif/core"
)

func init() {
	Registry["C14"] = c14
	Metas["C14"] = Meta{Ref: true, Level: "other", NeedCG: true,
		Technique: "static analysis: counted-once typestate and exhaustive threshold evaluation of the admin tally, dataflow identity of signed vs executed bytes, edge-dominance of the nonce/sender/quorum gates, effect ordering in ExecBlock, switch-table agreement",
		Explain:   "Static analysis of the governance path (gemmill/plugin/admin_op.go, state.ExecBlock). Decided: (R1) every signer's power enters the tally at most once; (R2) the threshold is pointwise 3x>2T; (R3) the bytes whose signatures are verified (cmd.Msg) are the bytes the request is parsed from; (R4) every recorded validator change is edge-dominated by sender==request address and nonce+1==account nonce, and ProcessAdminOP is reached from ExecTX/DeliverTx only under CheckMajor23; (R5) changes are applied to the NEXT validator set, at end of block, before the accumulator increment and SetBlockAndValidators, on the single ExecBlock path that all replicas (pbft, fast sync, raft, recovery) share; the per-block change list is reset on every exit of EndBlock; (R6) ProcessAdminOP and updateValidators handle the same command set; (R7) the cached total voting power is invalidated by Add/Update/Remove (shared with C16-R2). (R4 also) recording a change never depends on the node's own peer table. NOT decided: replay across histories at EVM level (the sender used for the nonce binding is taken from the precompile input, not from the EVM caller — noted, outside these rules).",
		Assume:    []string{"go-crypto VerifyBytes is sound", "json.Unmarshal is deterministic"},
	}
}

const aopT = "gemmill/plugin.(*AdminOp)"

func c14(c *Ctx) {
	tallyRule(c, "R1")
	quorumRule(c, "R2")
	c14R3(c)
	c14R4(c)
	c14R5(c)
	c14R6(c)
	valsetCacheRule(c, "R7")
	c14R8(c)
	shared(c, "C10", vmEquivShared)
}

func c14R3(c *Ctx) {
	rule := c.R.Rule("R3", "same bytes: CheckMajor23 verifies every signature over cmd.Msg; ParseValidator extracts the request from that same cmd (ExtractMsg unmarshals cmd.Msg); ExecTX passes the one decoded cmd to both", 4)
	if f := c.Anchor(rule, aopT+".CheckMajor23"); f != nil {
		n := 0
		for _, ci := range f.CallsTo(cfgx.Named("iface:gemmill/go-crypto.PubKey.VerifyBytes")) {
			n++
			c.R.Ob(rule, "CheckMajor23:VerifyBytes(msg=cmd.Msg)", callArg(ci, 0) == "a1.Msg", c.Pos(ci), fname(f), "signatures must be verified over the request bytes, got "+callArg(ci, 0))
			// the key that verifies is the key whose address is looked up and counted
			recv := cfgx.Expr(ci.Common().Value)
			okKey := false
			for _, t := range c.TallySites() {
				if t.Fn == f && strings.Contains(t.Addend, recv+".Address()") {
					okKey = true
				}
			}
			c.R.Ob(rule, "CheckMajor23:counted-validator=verifying-key", okKey, c.Pos(ci), fname(f), "the power counted must belong to the address of the public key that verified the signature")
		}
		if n == 0 {
			c.R.Undecided(rule, "CheckMajor23:VerifyBytes", c.P.Pos(f.F.Pos()), fname(f), "no signature verification found")
		}
	}
	if f := c.Anchor(rule, aopT+".ParseValidator"); f != nil {
		ok := false
		for _, ci := range f.CallsTo(cfgx.Named("gemmill/types.(*AdminOPCmd).ExtractMsg")) {
			ok = callArg(ci, 0) == "a1"
		}
		c.R.Ob(rule, "ParseValidator:from-cmd", ok, c.P.Pos(f.F.Pos()), fname(f), "the validator attributes must be extracted from the cmd whose signatures were checked")
	}
	if f := c.Anchor(rule, "gemmill/types.(*AdminOPCmd).ExtractMsg"); f != nil {
		ok := false
		for _, ci := range f.CallsTo(cfgx.Named("encoding/json.Unmarshal")) {
			ok = callArg(ci, 0) == "a0.Msg"
		}
		c.R.Ob(rule, "ExtractMsg:unmarshals-cmd.Msg", ok, c.P.Pos(f.F.Pos()), fname(f), "the executed request must be decoded from cmd.Msg (the signed bytes)")
	}
	if f := c.Anchor(rule, aopT+".ExecTX"); f != nil {
		ck := firstCall(f, aopT+".CheckMajor23")
		pr := firstCall(f, aopT+".ProcessAdminOP")
		ok := ck != nil && pr != nil && callArg(ck, 1) == callArg(pr, 1)
		c.R.Ob(rule, "ExecTX:same-cmd", ok, c.P.Pos(f.F.Pos()), fname(f), "CheckMajor23 and ProcessAdminOP must see the same decoded command")
	}
	selfSignRule(c, rule)
}

// selfSignRule: the joining node's own signature in an add-peer request covers the request bytes.
func selfSignRule(c *Ctx, rule string) {
	f := c.Anchor(rule, aopT+".ProcessAdminOP")
	if f == nil {
		return
	}
	n := 0
	for _, ci := range f.CallsTo(cfgx.Named("iface:gemmill/go-crypto.PubKey.VerifyBytes")) {
		n++
		c.R.Ob(rule, "ProcessAdminOP:self-signature-over-cmd.Msg", callArg(ci, 0) == "a1.Msg" && strings.Contains(callArg(ci, 1), "a1.SelfSign"), c.Pos(ci), fname(f),
			"the added node's signature (cmd.SelfSign) must be verified over the request bytes cmd.Msg: verified over anything else, a request naming a key whose owner never consented is accepted; got VerifyBytes("+shorten(callArg(ci, 0))+", "+shorten(callArg(ci, 1))+")")
	}
	if n == 0 {
		c.R.Undecided(rule, "ProcessAdminOP:self-signature", c.P.Pos(f.F.Pos()), fname(f), "no self-signature verification found")
	}
}

func c14R4(c *Ctx) {
	rule := c.R.Rule("R4", "nonce, sender and quorum gates: in ProcessAdminOP every append to ChangedValidators / AddRefuseKeys / DeleteRefuseKeys / DisconnectedPeers is edge-dominated by bytes.Equal(app.From(), vAttr.Addr) and vAttr.Nonce+1 == app.GetNonce() and a known command type; ProcessAdminOP is called only under CheckMajor23(cmd)==true (ExecTX) or, in DeliverTx, under i<0 or CheckMajor23", 6)
	f := c.Anchor(rule, aopT+".ProcessAdminOP")
	if f != nil {
		pv := "gemmill/plugin.(*AdminOp).ParseValidator(a0,a1)"
		n := 0
		for _, fld := range []string{"ChangedValidators", "AddRefuseKeys", "DeleteRefuseKeys", "DisconnectedPeers"} {
			for _, st := range f.FieldStores("gemmill/plugin.AdminOp", fld) {
				n++
				c.requireGuards(rule, "record-"+fld, f, st, []WantGuard{
					{"sender=request-addr", cfgx.Equals("bytes.Equal(a2.From()," + pv + "#0.Addr)")},
					{"nonce+1=account-nonce", cfgx.Equals("((" + pv + "#0.Nonce + 1) == a2.GetNonce())")},
					{"parsed-ok", cfgx.Equals("(" + pv + "#1 == nil)")},
					{"cmd-type", cfgx.Equals(`(a1.CmdType == "changeValidator")`)},
				})
				// replicated effects must not depend on node-local data (the p2p peer table)
				if fld != "DisconnectedPeers" {
					local := ""
					for _, g := range f.AllGuardForms(st) {
						if strings.Contains(g, "a0.sw") || strings.Contains(g, "gemmill/p2p.") || strings.Contains(g, ".NodeInfo.") {
							local = g
						}
					}
					c.R.Ob(rule, "record-"+fld+":independent-of-local-peer-table", local == "", c.Pos(st), fname(f), "the validator-set change / refuse-list entry is recorded only under a condition over this node's own connections ("+shorten(local)+"): replicas with different peers apply different validator sets")
				}
			}
		}
		if n < 3 {
			c.R.Undecided(rule, "record-sites", c.P.Pos(f.F.Pos()), fname(f), "expected the change-recording appends")
		}
	}
	for _, s := range c.AllCalls(cfgx.Named(aopT + ".ProcessAdminOP")) {
		caller := core.Short(fname(s.Fn))
		switch caller {
		case aopT + ".ExecTX":
			c.R.Ob(rule, "ExecTX:process⊣CheckMajor23", s.Fn.HasGuard(s.Call, func(g string) bool { return strings.HasPrefix(g, "gemmill/plugin.(*AdminOp).CheckMajor23(a0,") }), c.Pos(s.Call), fname(s.Fn), guardsText(s.Fn, s.Call))
		case aopT + ".DeliverTx":
			ok, why := everyPath(s.Fn, s.Call, func(g map[string]bool) bool {
				if g["(a2 < 0)"] {
					return true
				}
				for k := range g {
					if strings.HasPrefix(k, "gemmill/plugin.(*AdminOp).CheckMajor23(a0,") {
						return true
					}
				}
				return false
			})
			c.R.Ob(rule, "DeliverTx:process⊣(i<0 or CheckMajor23)", ok, c.Pos(s.Call), fname(s.Fn), why)
		default:
			c.R.Ob(rule, "ProcessAdminOP-caller:"+caller, false, c.Pos(s.Call), fname(s.Fn), "unreviewed caller of ProcessAdminOP")
		}
	}
	// DeliverTx is called with a non-negative index only (so the quorum check always runs)
	for _, s := range c.AllCalls(cfgx.Named(aopT + ".DeliverTx")) {
		arg := callArg(s.Call, 2)
		ok := arg == "(phi(-1|loop) + 1)"
		c.R.Ob(rule, "DeliverTx-caller:"+core.Short(fname(s.Fn))+":index>=0", ok, c.Pos(s.Call), fname(s.Fn), "DeliverTx skips the quorum check for a negative index; callers must pass the range position, got "+arg)
	}
}

func c14R5(c *Ctx) { uniformApplicationRule(c, "R5") }

// uniformApplicationRule is shared by C14-R5 and C02-R8 (LastValidators must stay the set that signed the block).
func uniformApplicationRule(c *Ctx, id string) {
	rule := c.R.Rule(id, "uniform application: updateValidators mutates only its validators parameter; EndBlock passes p.NextValidatorSet and defers Reset(); in State.ExecBlock the EndBlock hook receives nextValSet (a copy of a copy of s.Validators) and is followed on every success path by nextValSet.IncrementAccum(1) and SetBlockAndValidators(..., valSet, nextValSet); ExecBlock is the only caller chain to EndBlock", 7)
	if f := c.Anchor(rule, aopT+".updateValidators"); f != nil {
		ok := true
		n := 0
		for _, ci := range f.CallsTo(cfgx.Named(valsT+".Add", valsT+".Update", valsT+".Remove")) {
			n++
			if callArg(ci, 0) != "a1" {
				ok = false
			}
		}
		c.R.Ob(rule, "updateValidators:mutates-only-param", ok && n >= 3, c.P.Pos(f.F.Pos()), fname(f), "Add/Update/Remove must be applied to the validators parameter (the next set), never to the plugin's current set")
	}
	if f := c.Anchor(rule, aopT+".EndBlock"); f != nil {
		uv := firstCall(f, aopT+".updateValidators")
		c.R.Ob(rule, "EndBlock:applies-to-NextValidatorSet", uv != nil && callArg(uv, 1) == "a1.NextValidatorSet", c.P.Pos(f.F.Pos()), fname(f), "changes take effect on the next validator set")
		def := false
		for _, b := range f.F.Blocks {
			for _, ins := range b.Instrs {
				if d, ok := ins.(*ssa.Defer); ok && cfgx.CalleeName(d) == aopT+".Reset" && f.BlockOf(d) == 0 {
					def = true
				}
			}
		}
		c.R.Ob(rule, "EndBlock:Reset-deferred", def, c.P.Pos(f.F.Pos()), fname(f), "the per-block change list must be cleared on every exit, or a change is applied again at the next height")
		// the list handed to updateValidators contains the plugin's recorded changes
		okL := false
		if uv != nil {
			okL = strings.Contains(callArg(uv, 2), "append(") || strings.Contains(callArg(uv, 2), "a0.ChangedValidators")
		}
		c.R.Ob(rule, "EndBlock:changes-from-recorded-list", okL, c.P.Pos(f.F.Pos()), fname(f), "the applied list must be built from s.ChangedValidators")
	}
	if f := c.Anchor(rule, "gemmill/state.(*State).ExecBlock"); f != nil {
		eb := firstCall(f, "iface:gemmill/state.IBlockExecutable.EndBlock")
		inc := firstCall(f, valsT+".IncrementAccum")
		sbv := firstCall(f, "gemmill/state.(*State).SetBlockAndValidators")
		next := "gemmill/types.(*ValidatorSet).Copy(gemmill/types.(*ValidatorSet).Copy(a0.Validators))"
		ok := eb != nil && inc != nil && sbv != nil
		if ok {
			// value identity (not just equal renderings): the very same SSA value flows to all three
			v := eb.Common().Args[4]
			ok = cfgx.Expr(v) == next && inc.Common().Args[0] == v && sbv.Common().Args[4] == v && callArg(sbv, 3) == "gemmill/types.(*ValidatorSet).Copy(a0.Validators)"
		}
		c.R.Ob(rule, "ExecBlock:EndBlock(nextValSet)→IncrementAccum(nextValSet)→SetBlockAndValidators(valSet,nextValSet)", ok, c.P.Pos(f.F.Pos()), fname(f), "the set handed to the plugins must be the one that becomes state.Validators")
		c.before(rule, "ExecBlock:EndBlock≺IncrementAccum", f, eb, inc, true, "membership changes precede the proposer-rotation increment")
		c.before(rule, "ExecBlock:IncrementAccum≺SetBlockAndValidators", f, inc, sbv, true, "the incremented next set is what the state adopts")
		if eb != nil && sbv != nil {
			c.R.Ob(rule, "ExecBlock:SetBlockAndValidators⊣EndBlock-ok", f.HasGuard(sbv, cfgx.Equals("("+cfgx.Expr(eb.(*ssa.Call))+" == nil)")), c.Pos(sbv), fname(f), "a failed EndBlock must not change the state's validator sets")
		}
	}
	// who calls the plugin's EndBlock: only Angine.EndBlock; who calls that: only State.ExecBlock (through IBlockExecutable)
	callers := map[string]bool{}
	for _, s := range c.AllCalls(cfgx.Named(aopT+".EndBlock", "iface:gemmill/plugin.IPlugin.EndBlock")) {
		callers[core.Short(fname(s.Fn))] = true
	}
	var cs []string
	for k := range callers {
		cs = append(cs, k)
	}
	sort.Strings(cs)
	ok := len(cs) == 1 && cs[0] == "gemmill.(*Angine).EndBlock"
	c.R.Ob(rule, "plugin.EndBlock-callers", ok, "-", "", "plugin EndBlock must be reached only through Angine.EndBlock (called by State.ExecBlock); callers: "+strings.Join(cs, ", "))
}

func c14R6(c *Ctx) {
	rule := c.R.Rule("R6", "command switch agreement: ProcessAdminOP and updateValidators compare vAttr.Cmd against the same set of ValidatorCmd constants; unknown commands are an error (ProcessAdminOP) / no change (updateValidators)", 2)
	cmds := func(name string) []string {
		f := c.Anchor(rule, name)
		if f == nil {
			return nil
		}
		set := map[string]bool{}
		for _, b := range f.F.Blocks {
			for _, ins := range b.Instrs {
				if bo, ok := ins.(*ssa.BinOp); ok && strings.HasSuffix(cfgx.Expr(bo.X), ".Cmd") {
					if cst, ok := bo.Y.(*ssa.Const); ok && cst.Value != nil {
						set[cst.Value.ExactString()] = true
					}
				}
			}
		}
		return sortedKeys(set)
	}
	a, b := cmds(aopT+".ProcessAdminOP"), cmds(aopT+".updateValidators")
	c.R.Ob(rule, "command-sets-agree", len(a) > 0 && strings.Join(a, ",") == strings.Join(b, ","), "-", "", "ProcessAdminOP handles {"+strings.Join(a, ",")+"}, updateValidators handles {"+strings.Join(b, ",")+"}")
	want := `"add_peer","remove_node","update_node"`
	c.R.Ob(rule, "command-set=declared-constants", strings.Join(a, ",") == want, "-", "", "declared ValidatorCmd constants: "+want)
}
