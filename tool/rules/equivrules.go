package rules

import (
	"fmt"
	"sort"
	"strings"

	"annverif/core"
	"annverif/equiv"
)

// opaque packages: calls into them do not influence the properties (logging / metrics); their
// in-tree copies are not compared.
var equivOpaque = []string{
	core.RefMod + "/log", core.RefMod + "/metrics",
	// cgo wrapper: generated _Cfunc_ names differ per build; its Go API is compared through callers'
	// identifiers, its C sources byte-for-byte by the native-sources rule
	core.RefMod + "/crypto/secp256k1",
}

func (c *Ctx) Equiv() *equiv.Checker {
	if c.eq == nil {
		c.eq = equiv.New(c.P.AllPkgs, equivOpaque)
	}
	return c.eq
}

// Deviation: a reviewed difference from the reference.
type Deviation struct {
	Reason string
	// Check, if non-nil, is the rule that decides the deviating function instead (returns ok, detail).
	Check func(c *Ctx) (bool, string)
	// Patch, if non-nil, is the complete reviewed edit script relative to the reference: applying each
	// {reference fragment -> in-tree fragment} replacement (token strings, each fragment occurring
	// exactly Count times, default 1) to the reference's token sequence must give the in-tree one.
	Patch []PatchStep
}

type PatchStep struct {
	Ref, Tree string
	Count     int
}

// applyPatch checks patch-equivalence of one declaration.
func applyPatch(c *Ctx, repoPkg, key string, steps []PatchStep) (bool, string) {
	tree, ref, err := c.Equiv().TokenStrings(repoPkg, key)
	if err != nil {
		return false, err.Error()
	}
	cur := " " + ref + " "
	for _, st := range steps {
		n := st.Count
		if n == 0 {
			n = 1
		}
		frag := " " + st.Ref + " "
		if got := strings.Count(cur, frag); got != n {
			return false, fmt.Sprintf("reference fragment %q occurs %d times, expected %d (the reference or the patch table changed)", st.Ref, got, n)
		}
		cur = strings.ReplaceAll(cur, frag, " "+st.Tree+" ")
	}
	cur = strings.Join(strings.Fields(cur), " ")
	if cur == tree {
		return true, fmt.Sprintf("reference + %d reviewed edit(s) == in-tree", len(steps))
	}
	// first difference
	a, b := strings.Fields(cur), strings.Fields(tree)
	i := 0
	for i < len(a) && i < len(b) && a[i] == b[i] {
		i++
	}
	lo := i - 5
	if lo < 0 {
		lo = 0
	}
	hiA, hiB := i+6, i+6
	if hiA > len(a) {
		hiA = len(a)
	}
	if hiB > len(b) {
		hiB = len(b)
	}
	return false, fmt.Sprintf("after the reviewed edits the in-tree function still differs at token %d: expected [%s] got [%s]", i, strings.Join(a[lo:hiA], " "), strings.Join(b[lo:hiB], " "))
}

// equivPackage compares every function of in-tree package rel with the reference. Functions that are
// not equivalent must be listed in dev; functions of the reference that are missing in-tree must be
// listed in missingOK.
func equivPackage(c *Ctx, rule, rel string, dev map[string]Deviation, missingOK map[string]string) (compared, differing int) {
	return equivPackageSel(c, rule, rel, dev, missingOK, nil)
}

// equivPackageSel: as equivPackage, restricted to the listed function keys when only != nil (used for
// packages of which the in-tree copy keeps only a part; reference-only functions are then not reported).
func equivPackageSel(c *Ctx, rule, rel string, dev map[string]Deviation, missingOK map[string]string, only []string) (compared, differing int) {
	eq := c.Equiv()
	repoPkg := core.Mod + "/" + rel
	refPkg := equiv.MapPath(repoPkg)
	if c.P.AllPkgs[refPkg] == nil && c.P.Pkg(refPkg) == nil {
		c.R.Missing(rule, "reference package "+refPkg)
		return
	}
	keys := eq.FuncKeys(repoPkg)
	if len(keys) == 0 {
		c.R.Missing(rule, "in-tree package "+repoPkg)
		return
	}
	if only != nil {
		have := map[string]bool{}
		for _, k := range keys {
			have[k] = true
		}
		keys = nil
		for _, k := range only {
			if !have[k] {
				c.R.Missing(rule, rel+"."+k)
				continue
			}
			keys = append(keys, k)
		}
	}
	usedDev := map[string]bool{}
	for _, k := range keys {
		compared++
		r := eq.Compare(repoPkg, k)
		pos := "-"
		if r.Repo != nil {
			pos = c.P.Pos(r.Repo.Node.Pos())
		}
		if r.Equal {
			c.R.Ob(rule, rel+"."+k+"≡reference", true, pos, repoPkg+"."+k, "token- and resolution-equivalent to "+refPkg+"."+k)
			continue
		}
		differing++
		d, ok := dev[k]
		usedDev[k] = true
		if !ok {
			c.R.Ob(rule, rel+"."+k+"≡reference", false, pos, repoPkg+"."+k, "differs from the reference and is not a reviewed deviation: "+r.Why)
			continue
		}
		if d.Patch != nil {
			okc, detail := applyPatch(c, repoPkg, k, d.Patch)
			c.R.Ob(rule, rel+"."+k+":patch-equivalent", okc, pos, repoPkg+"."+k, "reviewed deviation ("+d.Reason+"): "+detail)
		} else if d.Check != nil {
			okc, detail := d.Check(c)
			c.R.Ob(rule, rel+"."+k+":deviation-rule", okc, pos, repoPkg+"."+k, "reviewed deviation ("+d.Reason+"); own rule: "+detail)
		} else {
			c.R.Ob(rule, rel+"."+k+":reviewed-deviation", true, pos, repoPkg+"."+k, "reviewed deviation: "+d.Reason+" | difference: "+r.Why)
		}
	}
	// deviations that are no longer needed are reported (rows that became equivalent are to be removed)
	var stale []string
	for k := range dev {
		if !usedDev[k] {
			stale = append(stale, k)
		}
	}
	sort.Strings(stale)
	if len(stale) > 0 {
		c.R.Note("deviation rows for %s that are equivalent or absent today (harmless): %s", rel, strings.Join(stale, ", "))
	}
	if only != nil {
		return
	}
	// functions present in the reference but not in-tree
	in := map[string]bool{}
	for _, k := range keys {
		in[k] = true
	}
	for _, k := range eq.FuncKeys(refPkg) {
		if in[k] {
			continue
		}
		why, ok := missingOK[k]
		if !ok && strings.HasPrefix(k, "Test") {
			continue
		}
		c.R.Ob(rule, rel+"."+k+":present-in-reference-only", ok, "-", refPkg+"."+k, "reference function has no in-tree counterpart; "+why)
	}
	return
}

// declDeviations: non-function declarations that deliberately differ, each pinned to a reviewed patch.
type DeclDeviation struct {
	Rel, Key, Reason string
	Patch            []PatchStep
}

var declDeviations = []DeclDeviation{
	{"eth/core/vm", "type:EVM", "adds the per-transaction budget", []PatchStep{{Ref: "callGasTemp uint64 }", Tree: "callGasTemp uint64 gasLeft uint64 }"}}},
	{"eth/core/vm", "type:Config", "adds the budget's configuration", []PatchStep{{Ref: "EVMInterpreter string }", Tree: "EVMInterpreter string EVMGasLimit uint64 }"}}},
	{"eth/core/vm", "type:operation", "adds the base-cost function slot", []PatchStep{{Ref: "gasCost gasFunc validateStack", Tree: "gasCost gasFunc baseGasCost gasFunc validateStack"}}},
	{"eth/core/vm", "var:PrecompiledContractsByzantium", "R4: Byzantium set plus the governance contract at 0xfe", []PatchStep{
		{Ref: "& bn256Pairing { } , }", Tree: "& bn256Pairing { } , common . BytesToAddress ( [ ] byte { 254 } ) : & DefaultAdminContract , }"}}},
	{"eth/ethdb", "type:Database", "storage interface extended with a prefix query (not used by trie/state)", []PatchStep{
		{Ref: "Has ( key [ ] byte ) ( bool , error ) Close ( )", Tree: "Has ( key [ ] byte ) ( bool , error ) GetWithPrefix ( [ ] byte , [ ] byte , uint32 , int ) ( [ ] * KVResult , error ) Close ( )"}}},
	{"eth/params", "type:ChainConfig", "version drift: PetersburgBlock did not exist at the fork point", []PatchStep{
		{Ref: "PetersburgBlock * big . Int `json:\"petersburgBlock,omitempty\"` EWASMBlock", Tree: "EWASMBlock"}}},
}

func declDeviationRule(c *Ctx, id string) {
	rule := c.R.Rule(id, "declaration deviations: each type/variable of the eth tree that is assumed to differ when it appears as a dependency equals the reference declaration plus exactly its reviewed edit", 6)
	for _, d := range declDeviations {
		ok, detail := applyPatch(c, core.Mod+"/"+d.Rel, d.Key, d.Patch)
		c.R.Ob(rule, d.Rel+"."+d.Key+":patch-equivalent", ok, "-", core.Mod+"/"+d.Rel+"."+d.Key, d.Reason+": "+detail)
	}
}
