package rules

import (
	"strings"

	"golang.org/x/tools/go/ssa"

	"annverif/cfgx"
	"annverif/core"
)

func init() {
	Registry["C09"] = c09
	Metas["C09"] = Meta{Level: "other", NeedCG: true, Ref: true,
		Technique: "static analysis: snapshot/revert pairing across the begin/exec/end closures, sibling check of nonce discipline at every nonce-bumping site, bound-before-slice on precompile input, nil-ness of the decoded transaction, publish order of the verifier",
		Explain:   "Static analysis of block execution in chain/app/evm and the AnnChain-specific precompile. Decided: (R1) each transaction runs between a state.Snapshot() taken by the begin callback and, on the error edge of the end callback, RevertToSnapshot of that same id; application-level accumulators are appended only on the success edge and the invalid list only on the error edge; the executor calls begin once and end on every completed iteration; (R2) every site that bumps an account nonce during execution (TransitionDb, executeKVTx) is dominated by a comparison of the account nonce with the transaction's nonce whose mismatch edges return errors (CREATE's creator-nonce bump exempt: reference-equivalent opcode semantics, C10); (R3) every slice of the input of a precompile that is not reference-equivalent (AdminOP.Run) is preceded by a length test; (R4) the execution callback is not invoked with a nil transaction; (R5) publish order in the parallel verifier (shared with C05-R4). (R6) the execution core the callbacks call into (state journal, StateDB, TransitionDb, EVM.create/Call) is reference-equivalent (shared with C10/C11). Noted, not an obligation: Hook.Sync runs the application callback in a fresh goroutine without recover, so any panic under OnExecute is process-fatal — which is why R3/R4 are totality obligations. NOT decided: completeness of the state journal (C11), receipt contents, EVM totality (C10).",
		Assume:    []string{"eth/core/state journal reverts exactly (C11)", "etypes.Sender is deterministic"},
	}
}

func c09(c *Ctx) {
	c09R1(c)
	c09R2(c)
	c09R3(c)
	c09R4(c)
	publishOrderRule(c, "R5")
	c09R6(c)
	shared(c, "C05", c05R2)
	shared(c, "C10", vmEquivShared)
}

// R6: the execution core the application calls into is the reference's.
func c09R6(c *Ctx) {
	eq := c.Equiv()
	setAssume(eq, c10Assume)
	setAssume(eq, c11Assume)
	rule := c.R.Rule("R6", "execution core is the reference's: the state journal / StateDB snapshot-revert code (eth/core/state) and the transaction-execution functions of eth/core and eth/core/vm that decide nonce bumps and rollback (TransitionDb, preCheck, buyGas, refundGas, ApplyMessage, EVM.create/Create/Create2/Call) are equivalent to go-ethereum v1.8.27 or reviewed deviations (shared with C10/C11)", 100)
	equivPackage(c, rule, "eth/core/state", c11Dev["eth/core/state"], map[string]string{})
	equivPackageSel(c, rule, "eth/core", c10DevOther["eth/core"], nil, c10Only["eth/core"])
	byz := "precompiles := PrecompiledContractsHomestead if evm . ChainConfig ( ) . IsByzantium ( evm . BlockNumber ) { precompiles = PrecompiledContractsByzantium }"
	equivPackageSel(c, rule, "eth/core/vm", map[string]Deviation{
		"(*EVM).Call": {Reason: "Byzantium precompile set for every block (C10-R4)", Patch: []PatchStep{{Ref: byz, Tree: "precompiles := PrecompiledContractsByzantium"}}},
	}, nil, []string{"(*EVM).create", "(*EVM).Create", "(*EVM).Create2", "(*EVM).Call", "(*EVM).CallCode", "(*EVM).DelegateCall", "(*EVM).StaticCall"})
}

func c09R1(c *Ctx) {
	rule := c.R.Rule("R1", "snapshot/revert pairing: the begin callback takes stateSnapshot := state.Snapshot() on app.currentState; the end callback calls state.RevertToSnapshot(stateSnapshot) exactly under err != nil and appends to res.InvalidTxs there; it appends to app.receipts/kvs/keyValueHistories and res.ValidTxs only under err == nil; exeWithCPUParallelVeirfy calls begin once per outer iteration and end before the next iteration", 9)
	gen := c.P.F(evmT + ".genExecFun")
	if gen == nil || len(gen.AnonFuncs) == 0 {
		c.R.Missing(rule, evmT+".genExecFun$1")
		return
	}
	begin := c.Fn(gen.AnonFuncs[0])
	snap := firstCall(begin, "eth/core/state.(*StateDB).Snapshot")
	c.R.Ob(rule, "begin:snapshot-of-currentState", snap != nil && callArg(snap, 0) == "fv:app.currentState", c.P.Pos(begin.F.Pos()), fname(begin), "a snapshot of the working state must be taken before each transaction")
	var execF, endF *cfgx.Fn
	for _, an := range begin.F.AnonFuncs {
		f := c.Fn(an)
		if an.Signature.Params().Len() == 3 {
			execF = f
		} else if an.Signature.Params().Len() == 2 {
			endF = f
		}
	}
	if execF == nil || endF == nil {
		c.R.Undecided(rule, "closures", c.P.Pos(begin.F.Pos()), fname(begin), "exec/end closures not found")
		return
	}
	// the snapshot id captured by end is the local assigned from Snapshot()
	okId := false
	for _, st := range begin.Stores(cfgx.Equals("local:stateSnapshot")) {
		okId = snap != nil && st.Val == ssa.Value(snap.(*ssa.Call))
	}
	c.R.Ob(rule, "begin:stateSnapshot=Snapshot()", okId, c.P.Pos(begin.F.Pos()), fname(begin), "the id reverted to must be the one taken at begin")
	rv := endF.CallsTo(cfgx.Named("eth/core/state.(*StateDB).RevertToSnapshot"))
	c.R.Ob(rule, "end:one-revert", len(rv) == 1, c.P.Pos(endF.F.Pos()), fname(endF), "exactly one RevertToSnapshot expected")
	for _, r := range rv {
		c.R.Ob(rule, "end:revert(state,stateSnapshot)", callArg(r, 0) == "fv:state" && callArg(r, 1) == "fv:stateSnapshot", c.Pos(r), fname(endF), "revert must target the begin snapshot of the same state; got ("+callArg(r, 0)+","+callArg(r, 1)+")")
		c.R.Ob(rule, "end:revert⊣err!=nil", endF.HasGuard(r, cfgx.Equals("(a1 != nil)")), c.Pos(r), fname(endF), guardsText(endF, r))
	}
	// every return on the error edge passed the revert
	for _, r := range endF.Returns() {
		if endF.HasGuard(r, cfgx.Equals("(a1 != nil)")) {
			ok := len(rv) == 1 && endF.Dominates(rv[0], r)
			c.R.Ob(rule, "end:error-return-after-revert", ok, c.Pos(r), fname(endF), "an invalid transaction must leave the state as if it had not been in the block")
		}
	}
	for _, st := range endF.Stores(func(a string) bool { return strings.HasPrefix(a, "fv:app.") || strings.HasPrefix(a, "fv:res.") }) {
		a := cfgx.AddrExpr(st.Addr)
		if a == "fv:res.InvalidTxs" {
			c.R.Ob(rule, "end:InvalidTxs⊣err!=nil", endF.HasGuard(st, cfgx.Equals("(a1 != nil)")), c.Pos(st), fname(endF), guardsText(endF, st))
		} else {
			c.R.Ob(rule, "end:"+strings.TrimPrefix(a, "fv:")+"⊣err==nil", endF.HasGuard(st, cfgx.Equals("(a1 == nil)")), c.Pos(st), fname(endF), "results of a failed transaction must not reach the block's accumulators; "+guardsText(endF, st))
		}
	}
	// exec writes state only through the captured state object
	for _, ci := range execF.CallsTo(cfgx.Named(evmT+".executeKVTx", evmT+".executeOriginTx")) {
		arg := callArg(ci, 1)
		if strings.HasSuffix(cfgx.CalleeName(ci), "executeOriginTx") {
			arg = callArg(ci, 2)
		}
		c.R.Ob(rule, "exec:"+shortCallee(ci)+":state=begin-state", arg == "fv:state", c.Pos(ci), fname(execF), "execution must mutate the state object the snapshot was taken on, got "+arg)
	}
	// executor loop
	if f := c.Anchor(rule, "chain/app/evm.exeWithCPUParallelVeirfy"); f != nil {
		bg := f.CallsTo(cfgx.Named("dyn:a3"))
		en := f.CallsTo(cfgx.Named("dyn:a3()#1"))
		ok := len(bg) == 1 && len(en) == 1 && f.Dominates(bg[0], en[0])
		if ok {
			// from begin, the next begin is not reachable without passing end
			again, _ := f.PathAvoiding(bg[0], func(i ssa.Instruction) bool { return i == ssa.Instruction(bg[0].(*ssa.Call)) }, func(i ssa.Instruction) bool { return i == ssa.Instruction(en[0].(*ssa.Call)) })
			ok = !again
		}
		c.R.Ob(rule, "executor:begin-once-then-end-per-transaction", ok, c.P.Pos(f.F.Pos()), fname(f), "each iteration must take a snapshot (begin) and settle it (end) before the next transaction starts")
	}
}

func c09R2(c *Ctx) {
	rule := c.R.Rule("R2", "nonce discipline (sibling check): every StateDB.SetNonce(a, GetNonce(a)+1) on an execution path is dominated by a comparison of GetNonce(a) with the transaction/message nonce whose < and > edges return an error: executeKVTx directly; StateTransition.TransitionDb through preCheck under msg.CheckNonce(), which Transaction.AsMessage sets to true", 4)
	if f := c.Anchor(rule, evmT+".executeKVTx"); f != nil {
		sn := f.CallsTo(cfgx.Named("eth/core/state.(*StateDB).SetNonce"))
		if len(sn) != 1 {
			c.R.Undecided(rule, "executeKVTx:SetNonce", c.P.Pos(f.F.Pos()), fname(f), "expected one SetNonce")
		}
		for _, ci := range sn {
			addr := callArg(ci, 1)
			get := "eth/core/state.(*StateDB).GetNonce(a1," + addr + ")"
			txn := "eth/core/types.(*Transaction).Nonce(a2)"
			c.R.Ob(rule, "executeKVTx:bump=GetNonce+1", callArg(ci, 2) == "("+get+" + 1)", c.Pos(ci), fname(f), "nonce must rise by exactly one, got "+shorten(callArg(ci, 2)))
			c.requireGuards(rule, "executeKVTx:SetNonce", f, ci, []WantGuard{
				{"nonce-not-too-high", cfgx.Equals("(" + get + " >= " + txn + ")")},
				{"nonce-not-too-low", cfgx.Equals("(" + get + " <= " + txn + ")")},
				{"sender-recovered", cfgx.Equals("(eth/core/types.Sender(a0.Signer,a2)#1 == nil)")},
			})
			c.R.Ob(rule, "executeKVTx:sender=recovered-signer", addr == "eth/core/types.Sender(a0.Signer,a2)#0", c.Pos(ci), fname(f), "the bumped account must be the transaction's recovered sender")
		}
	}
	if f := c.Anchor(rule, "eth/core.(*StateTransition).preCheck"); f != nil {
		get := "iface:eth/core/vm.StateDB.GetNonce"
		_ = get
		ok := true
		n := 0
		for _, r := range f.Returns() {
			e := cfgx.Expr(f.ReturnValues(r)[0])
			if strings.Contains(e, "buyGas(") {
				n++
				okp, _ := everyPath(f, r, func(g map[string]bool) bool {
					if g["!a0.msg.CheckNonce()"] {
						return true
					}
					hi, lo := false, false
					for k := range g {
						if strings.HasSuffix(k, ".GetNonce(a0.msg.From()) >= a0.msg.Nonce())") {
							hi = true
						}
						if strings.HasSuffix(k, ".GetNonce(a0.msg.From()) <= a0.msg.Nonce())") {
							lo = true
						}
					}
					return hi && lo
				})
				if !okp {
					ok = false
				}
			}
		}
		c.R.Ob(rule, "preCheck:nonce-compared-both-ways", ok && n == 1, c.P.Pos(f.F.Pos()), fname(f), "preCheck must reject nonce too high and too low before buying gas")
	}
	if f := c.Anchor(rule, "eth/core.(*StateTransition).TransitionDb"); f != nil {
		pc := firstCall(f, "eth/core.(*StateTransition).preCheck")
		ok := pc != nil
		for _, ci := range f.CallsTo(func(n string) bool { return strings.HasSuffix(n, "StateDB.SetNonce") }) {
			if pc == nil || !f.HasGuard(ci, cfgx.Equals("("+cfgx.Expr(pc.(*ssa.Call))+" == nil)")) {
				ok = false
			}
		}
		c.R.Ob(rule, "TransitionDb:SetNonce⊣preCheck-ok", ok, c.P.Pos(f.F.Pos()), fname(f), "the sender nonce is bumped only after preCheck passed")
	}
	if f := c.Anchor(rule, "eth/core/types.(*Transaction).AsMessage"); f != nil {
		ok := false
		for _, st := range f.Stores(func(a string) bool { return strings.HasSuffix(a, ".checkNonce") }) {
			ok = cfgx.Expr(st.Val) == "true"
		}
		c.R.Ob(rule, "AsMessage:checkNonce=true", ok, c.P.Pos(f.F.Pos()), fname(f), "messages built from signed transactions must ask for the nonce check")
	}
	// no other execution-path site bumps a nonce
	for _, s := range c.AllCalls(func(n string) bool {
		return strings.HasSuffix(n, ".SetNonce") && (strings.Contains(n, "StateDB") || strings.Contains(n, "stateObject"))
	}) {
		n := core.Short(fname(s.Fn))
		if !strings.HasPrefix(n, "chain/app/evm.") && !strings.HasPrefix(n, "eth/core.(*StateTransition)") {
			continue
		}
		ok := n == evmT+".executeKVTx" || n == "eth/core.(*StateTransition).TransitionDb"
		c.R.Ob(rule, "SetNonce-site:"+n, ok, c.Pos(s.Call), fname(s.Fn), "unreviewed nonce-bumping site on the execution path")
	}
}

func c09R3(c *Ctx) {
	rule := c.R.Rule("R3", "precompile input discipline: in AdminOP.Run (the one precompile that is not reference code) every slice expression on `input` is edge-dominated by a test of len(input) that covers its constant bounds, and the variable upper bound is clamped to len(input) and tested against the lower bound", 4)
	f := c.Anchor(rule, "eth/core/vm.(*AdminOP).Run")
	if f == nil {
		return
	}
	n := 0
	for _, b := range f.F.Blocks {
		for _, ins := range b.Instrs {
			sl, ok := ins.(*ssa.Slice)
			if !ok || !f.Live(ins) || cfgx.Expr(sl.X) != "a1" {
				continue
			}
			n++
			lenOK := f.HasGuard(ins, func(g string) bool { return g == "(len(a1) >= 52)" })
			c.R.Ob(rule, "slice:"+cfgx.Expr(sl)+"⊣len(input)>=52", lenOK, c.Pos(ins), fname(f), "input is sliced without a length check: a short call data panics block execution on every replica; "+guardsText(f, ins))
			if sl.High != nil {
				if _, isConst := sl.High.(*ssa.Const); !isConst {
					hi := cfgx.Expr(sl.High)
					okHi := strings.Contains(hi, "len(a1)") && f.HasGuard(ins, func(g string) bool {
						return strings.HasSuffix(g, " >= 52)") && strings.Contains(g, "len(a1)") && strings.HasPrefix(g, "(phi(")
					})
					c.R.Ob(rule, "slice:variable-upper-bound-clamped-and-ordered", okHi, c.Pos(ins), fname(f), "upper bound "+shorten(hi)+" must be clamped to len(input) and be >= the lower bound")
				}
			}
		}
	}
	if n < 3 {
		c.R.Undecided(rule, "slices", c.P.Pos(f.F.Pos()), fname(f), "expected the three slices of input")
	}
}

func c09R4(c *Ctx) {
	rule := c.R.Rule("R4", "nil transaction: appTx.tx stays nil for an empty entry; the executor invokes the execution callback only under pcur.tx != nil (sibling agreement with execTx, which skips empty entries); tryValidate marks such an entry Checked without touching it", 2)
	if f := c.Anchor(rule, "chain/app/evm.exeWithCPUParallelVeirfy"); f != nil {
		ex := f.CallsTo(cfgx.Named("dyn:a3()#0"))
		if len(ex) != 1 {
			c.R.Undecided(rule, "exec-call", c.P.Pos(f.F.Pos()), fname(f), "exec call not found")
		}
		for _, ci := range ex {
			txArg := callArg(ci, 2)
			c.R.Ob(rule, "parallel:exec⊣tx!=nil", f.HasGuard(ci, cfgx.Equals("("+txArg+" != nil)")), c.Pos(ci), fname(f), "a zero-length entry of block.Data.Txs reaches the callback as a nil *Transaction and is dereferenced during execution; "+guardsText(f, ci))
		}
	}
	if f := c.Anchor(rule, "chain/app/evm.execTx"); f != nil {
		for _, ci := range f.CallsTo(cfgx.Named("dyn:a1")) {
			c.R.Ob(rule, "serial:exec⊣len(tx)>0", f.HasGuard(ci, cfgx.Equals("(len(a0) > 0)")), c.Pos(ci), fname(f), guardsText(f, ci))
		}
	}
}
