package rules

import (
	"fmt"
	"go/types"
	"reflect"
	"strings"

	"golang.org/x/tools/go/ssa"

	"annverif/cfgx"
	"annverif/core"
	"annverif/dtable"
)

func init() {
	Registry["C16"] = c16
	Metas["C16"] = Meta{Level: "other", NeedCG: true,
		Technique: "static analysis: receiver-provenance of every IncrementAccum call, who-may-write + effect-set check of the cached fields, finite-domain decision table of CompareAccum, hidden-state (non-persisted field) lint on the persisted validator set, slot-bookkeeping obligations of the priority queue",
		Explain:   "Static analysis of gemmill/types/validator_set.go and its callers. Decided: (R1) every IncrementAccum call has a receiver that is a fresh Copy()/NewValidatorSet()/literal on all paths (never a shared set loaded from a field); (R2) the set's slice is mutated only by Add/Update/Remove (and constructors), and every such mutation path that reports success stores proposer=nil and totalVotingPower=0; totalVotingPower has no other non-zero writer than its lazy getter; accessors hand out copies; (R3) CompareAccum's decision table over (accum order x address order x nil receiver) is the strict total order 'higher accum, ties by lower address' and panics only on identical addresses; accumComparable.Less is strict '>'; (R4) no non-persisted field of the persisted ValidatorSet carries state that cannot be recomputed (only lazy getters and copies may write it); (R5) Add keeps the slice sorted and duplicate-free, NewValidatorSet sorts before first use; (R6) the go-common priority queue behind IncrementAccum keeps pq[k].index == k in Push/Swap, and Update/Heap.Update/Peek/Less/Pop address the root and the recorded slot. (R7) ExecBlock rotates by the constant 1, enterNewRound by round-cs.Round on its private copy, and Add/Update store copies. NOT decided: the proportionality counts, batched-vs-single increment equality (numeric; an independent experiment during seeding showed IncrementAccum(k) already differs from k x IncrementAccum(1) on the pinned tree — outside what a static rule can decide), overflow.",
		Assume:    []string{"container/heap's Push/Fix/Pop are correct given the Interface contract checked by R6", "bytes.Compare is a total order on addresses"},
	}
}

func c16(c *Ctx) {
	c16R1(c)
	c16R2(c)
	c16R3(c)
	c16R4(c)
	c16R5(c)
	c16R6(c)
	c16R7(c)
	c16R8(c)
	c16R9(c)
	c16R11(c)
	loadIntermediateRoles(c, c.R.Rule("R10", "recovery keeps the roles of the two validator sets: LoadIntermediate hands every field of the saved intermediate state to the setBlockAndValidators parameter of the same role (Validators / LastValidators swapped leaves a recovered replica one rotation behind)", 6))
}

func c16R1(c *Ctx) {
	rule := c.R.Rule("R1", "copy before increment: at every call of (*ValidatorSet).IncrementAccum the receiver is, on all paths, the result of Copy(), NewValidatorSet(), or a literal built in the same function; never a set loaded from a struct field or parameter", 4)
	var fresh func(v ssa.Value, depth int) (bool, string)
	fresh = func(v ssa.Value, depth int) (bool, string) {
		if depth > 6 {
			return false, "too deep"
		}
		switch x := v.(type) {
		case *ssa.Call:
			n := cfgx.CalleeName(x)
			if n == valsT+".Copy" || n == "gemmill/types.NewValidatorSet" {
				return true, n
			}
			return false, "result of " + n
		case *ssa.Alloc:
			return true, "literal"
		case *ssa.Phi:
			for _, e := range x.Edges {
				if ok, why := fresh(e, depth+1); !ok {
					return false, why
				}
			}
			return true, "phi of fresh"
		case *ssa.UnOp:
			// load from a local holding a fresh value
			if al, ok := x.X.(*ssa.Alloc); ok {
				all := true
				why := ""
				n := 0
				for _, r := range *al.Referrers() {
					if st, ok := r.(*ssa.Store); ok && st.Addr == ssa.Value(al) {
						n++
						if ok2, w := fresh(st.Val, depth+1); !ok2 {
							all, why = false, w
						}
					}
				}
				if n > 0 && all {
					return true, "local of fresh"
				}
				return false, "local: " + why
			}
			return false, "loaded from " + cfgx.Expr(x.X)
		}
		return false, cfgx.Expr(v)
	}
	for _, s := range c.AllCalls(cfgx.Named(valsT + ".IncrementAccum")) {
		if s.Call.Common().IsInvoke() || len(s.Call.Common().Args) == 0 {
			continue
		}
		recv := s.Call.Common().Args[0]
		ok, why := fresh(recv, 0)
		c.R.Ob(rule, "IncrementAccum-in:"+core.Short(fname(s.Fn)), ok, c.Pos(s.Call), fname(s.Fn), "receiver "+shorten(cfgx.Expr(recv))+" ("+why+"): incrementing a shared set in place desynchronises the proposer rotation")
	}
}

func c16R2(c *Ctx) { valsetCacheRule(c, "R2") }

// valsetCacheRule is shared by C16-R2, C01-R5, C14 and C15: the quorum denominator is a cached value.
func valsetCacheRule(c *Ctx, id string) {
	rule := c.R.Rule(id, "cache invalidation: ValidatorSet.Validators (field or element) is stored only by NewValidatorSet/Copy/Add/Update/Remove; every `return true`-class path of Add/Update/Remove is dominated by proposer=nil and totalVotingPower=0; totalVotingPower is written non-zero only by its lazy getter TotalVotingPower (under totalVotingPower==0) and by Copy; GetByAddress/GetByIndex/Proposer/Iterate hand out copies", 12)
	T := "gemmill/types.ValidatorSet"
	mutators := map[string]bool{valsT + ".Add": true, valsT + ".Update": true, valsT + ".Remove": true}
	ctors := map[string]bool{"gemmill/types.NewValidatorSet": true, valsT + ".Copy": true}
	for _, fn := range c.P.RepoFuncs() {
		f := c.Fn(fn)
		name := core.Short(fname(f))
		for _, st := range f.FieldStores(T, "Validators") {
			c.R.Ob(rule, "Validators-writer:"+name, mutators[name] || ctors[name] || strings.HasPrefix(name, "gemmill/state.(*StateTool)"), c.Pos(st), fname(f), "the validator slice may be replaced only by Add/Update/Remove and constructors")
		}
		// element stores: X.Validators[i] = v
		for _, b := range fn.Blocks {
			for _, ins := range b.Instrs {
				st, ok := ins.(*ssa.Store)
				if !ok || !f.Live(ins) {
					continue
				}
				ia, ok := st.Addr.(*ssa.IndexAddr)
				if !ok {
					continue
				}
				if ld, ok := ia.X.(*ssa.UnOp); ok {
					if fa, ok := ld.X.(*ssa.FieldAddr); ok && cfgx.IsField(fa, T, "Validators") {
						c.R.Ob(rule, "Validators-element-writer:"+name, name == valsT+".Update", c.Pos(st), fname(f), "an element of the validator slice may be replaced only by Update")
					}
				}
			}
		}
		for _, st := range f.FieldStores(T, "totalVotingPower") {
			v := cfgx.Expr(st.Val)
			ok := false
			switch {
			case cfgx.IsZeroConst(st.Val):
				ok = mutators[name]
			case name == valsT+".TotalVotingPower":
				ok = f.HasGuard(st, cfgx.Equals("(a0.totalVotingPower == 0)")) && strings.HasPrefix(v, "(a0.totalVotingPower + a0.Validators[")
			case name == valsT+".Copy":
				ok = v == "a0.totalVotingPower"
			}
			c.R.Ob(rule, "totalVotingPower-store:"+name+"="+shorten(v), ok, c.Pos(st), fname(f), "the cached total may only be reset to 0 by a mutator, recomputed by its lazy getter, or copied; an incremental adjustment is wrong when the cache is cold (0)")
		}
	}
	for m := range mutators {
		f := c.Anchor(rule, m)
		if f == nil {
			continue
		}
		n := 0
		for _, r := range f.Returns() {
			vals := f.ReturnValues(r)
			last := vals[len(vals)-1]
			cst, ok := last.(*ssa.Const)
			if !ok || cst.Value == nil || cst.Value.ExactString() != "true" {
				continue
			}
			n++
			for _, fld := range []string{"proposer", "totalVotingPower"} {
				ok := false
				for _, st := range f.FieldStores(T, fld) {
					if (cfgx.IsZeroConst(st.Val) || cfgx.IsNilConst(st.Val)) && f.Dominates(st, r) {
						ok = true
					}
				}
				c.R.Ob(rule, core.Short(m)+":success⊣reset-"+fld, ok, c.Pos(r), fname(f), "a successful mutation must invalidate the cached "+fld)
			}
		}
		if n == 0 {
			c.R.Undecided(rule, core.Short(m)+":success", c.P.Pos(f.F.Pos()), fname(f), "no `return true` found")
		}
	}
	// accessors hand out copies
	for _, acc := range []struct {
		fn  string
		res int
	}{{valsT + ".GetByAddress", 1}, {valsT + ".GetByIndex", 1}, {valsT + ".Proposer", 0}} {
		f := c.Anchor(rule, acc.fn)
		if f == nil {
			continue
		}
		for _, r := range f.Returns() {
			v := f.ReturnValues(r)[acc.res]
			e := cfgx.Expr(v)
			ok := e == "nil" || strings.HasPrefix(e, "gemmill/types.(*Validator).Copy(")
			c.R.Ob(rule, core.Short(acc.fn)+":returns-copy", ok, c.Pos(r), fname(f), "accessor returns "+shorten(e)+": handing out the stored *Validator lets callers mutate the set")
		}
	}
	if f := c.Anchor(rule, valsT+".Copy"); f != nil {
		ok := false
		for _, st := range f.Stores(func(a string) bool { return strings.HasPrefix(a, "make([]*gemmill/types.Validator,") }) {
			if strings.HasPrefix(cfgx.Expr(st.Val), "gemmill/types.(*Validator).Copy(a0.Validators[") {
				ok = true
			}
		}
		c.R.Ob(rule, "Copy:deep-copies-elements", ok, c.P.Pos(f.F.Pos()), fname(f), "Copy must copy every *Validator (IncrementAccum updates Accum in place)")
	}
}

func c16R3(c *Ctx) {
	rule := c.R.Rule("R3", "CompareAccum decision table (nil receiver x accum order x address order = 18 states, exhaustive): nil receiver -> other; higher accum wins; equal accum -> lower address wins; identical address -> sanity panic. accumComparable.Less is the strict '>' on accum", 19)
	f := c.Anchor(rule, "gemmill/types.(*Validator).CompareAccum")
	if f != nil {
		atoms := []dtable.Atom{
			{Name: "N", Kind: dtable.Nil, X: "a0"},
			{Name: "A", Kind: dtable.Cmp, X: "a0.Accum", Y: "a1.Accum"},
			{Name: "D", Kind: dtable.Cmp, X: "bytes.Compare(a0.Address,a1.Address)", Y: "0"},
		}
		tab, err := dtable.Extract(dtable.Spec{Fn: f, Atoms: atoms})
		if err != nil {
			c.R.Undecided(rule, "table", c.P.Pos(f.F.Pos()), fname(f), err.Error())
		} else {
			for _, row := range tab.Rows {
				st := row.State
				want := ""
				switch {
				case st["N"] == dtable.NIL:
					want = "return:a1"
				case st["A"] == dtable.GT:
					want = "return:a0"
				case st["A"] == dtable.LT:
					want = "return:a1"
				case st["D"] == dtable.LT:
					want = "return:a0"
				case st["D"] == dtable.GT:
					want = "return:a1"
				default:
					want = "noreturn:gemmill/modules/go-common.PanicSanity"
				}
				ok := len(row.Outcomes) == 1 && row.Outcomes[0] == want
				c.R.Ob(rule, "CompareAccum:"+tab.StateString(st), ok, c.P.Pos(f.F.Pos()), fname(f), fmt.Sprintf("spec=%s extracted=%v", want, row.Outcomes))
			}
		}
	}
	if g := c.Anchor(rule, "gemmill/types.(accumComparable).Less"); g != nil {
		ok := false
		for _, r := range g.Returns() {
			e := cfgx.Expr(g.ReturnValues(r)[0])
			if strings.HasPrefix(e, "(a0 > a1.(") {
				ok = true
			}
		}
		c.R.Ob(rule, "accumComparable.Less:strict->", ok, c.P.Pos(g.F.Pos()), fname(g), "heap order must be strictly 'greater accum first'")
	}
}

// R4: hidden state ------------------------------------------------------------------------------
func c16R4(c *Ctx) {
	rule := c.R.Rule("R4", "no hidden state in the persisted validator set: an unexported (hence not persisted by go-wire) field of types.ValidatorSet may be written non-zero only by its lazy getter (under `field == zero`) or copied by Copy(); any other writer makes the value depend on process history and it is lost on restart", 3)
	pk := c.P.Pkg("gemmill/types")
	if pk == nil {
		c.R.Missing(rule, "gemmill/types")
		return
	}
	obj := pk.Types.Scope().Lookup("ValidatorSet")
	if obj == nil {
		c.R.Missing(rule, "types.ValidatorSet")
		return
	}
	st := obj.Type().Underlying().(*types.Struct)
	// the exported fields of the persisted set and of its elements are what go-wire saves and what
	// Validator.Hash()/ValidatorSet.Hash() cover; go-wire skips a field tagged json:"-"
	for _, tn := range []string{"ValidatorSet", "Validator"} {
		o := pk.Types.Scope().Lookup(tn)
		if o == nil {
			c.R.Missing(rule, "types."+tn)
			continue
		}
		ts, _ := o.Type().Underlying().(*types.Struct)
		for i := 0; ts != nil && i < ts.NumFields(); i++ {
			fld := ts.Field(i)
			if !fld.Exported() {
				continue
			}
			tag := reflect.StructTag(ts.Tag(i)).Get("json")
			c.R.Ob(rule, "persisted:"+tn+"."+fld.Name(), tag != "-", c.P.Pos(fld.Pos()), "", "an exported field of the persisted validator set tagged json:\"-\" is skipped by go-wire: it is neither saved with the state nor covered by the validators hash, so a restarted replica loses it (accum -> different proposers)")
		}
	}
	getter := map[string]string{"proposer": valsT + ".Proposer", "totalVotingPower": valsT + ".TotalVotingPower"}
	for i := 0; i < st.NumFields(); i++ {
		fld := st.Field(i)
		if fld.Exported() {
			continue
		}
		n := 0
		for _, fn := range c.P.RepoFuncs() {
			f := c.Fn(fn)
			name := core.Short(fname(f))
			for _, s := range f.FieldStores("gemmill/types.ValidatorSet", fld.Name()) {
				if cfgx.IsZeroConst(s.Val) || cfgx.IsNilConst(s.Val) {
					continue
				}
				n++
				ok := false
				switch name {
				case getter[fld.Name()]:
					zero := "(a0." + fld.Name() + " == 0)"
					if fld.Name() == "proposer" {
						zero = "(a0.proposer == nil)"
					}
					ok = f.HasGuard(s, cfgx.Equals(zero))
				case valsT + ".Copy":
					ok = cfgx.Expr(s.Val) == "a0."+fld.Name()
				}
				c.R.Ob(rule, "hidden-state:"+fld.Name()+"-written-by:"+name, ok, c.Pos(s), fname(f),
					"non-persisted field ValidatorSet."+fld.Name()+" receives a value that is not recomputed by its getter: after a save/load round trip (restart) the getter yields a different result")
			}
		}
		if n == 0 {
			c.R.Note("ValidatorSet.%s has no non-zero writer", fld.Name())
		}
	}
}

func c16R5(c *Ctx) {
	rule := c.R.Rule("R5", "sortedness: Add refuses an equal address (returns false under bytes.Compare==0) and inserts at the sort.Search position; NewValidatorSet sorts before the first IncrementAccum; Hash iterates the slice in order", 4)
	if f := c.Anchor(rule, valsT+".Add"); f != nil {
		hasFalse := false
		for _, r := range f.Returns() {
			v := f.ReturnValues(r)[0]
			if cst, ok := v.(*ssa.Const); ok && cst.Value != nil && cst.Value.ExactString() == "false" {
				if f.HasGuard(r, func(g string) bool {
					return strings.HasPrefix(g, "(bytes.Compare(a0.Validators[sort.Search(") && strings.HasSuffix(g, " == 0)")
				}) {
					hasFalse = true
				}
			}
		}
		c.R.Ob(rule, "Add:refuses-duplicate", hasFalse, c.P.Pos(f.F.Pos()), fname(f), "Add must return false for an address already present")
		ins := false
		for _, st := range f.Stores(func(a string) bool {
			return strings.HasPrefix(a, "make([]*gemmill/types.Validator,(len(a0.Validators) + 1))[sort.Search(")
		}) {
			_ = st
			ins = true
		}
		c.R.Ob(rule, "Add:insert-at-search-index", ins, c.P.Pos(f.F.Pos()), fname(f), "the new validator must be stored at the sort.Search index of the new slice")
	}
	if f := c.Anchor(rule, "gemmill/types.NewValidatorSet"); f != nil {
		srt := f.CallsTo(cfgx.Named("sort.Sort"))
		inc := f.CallsTo(cfgx.Named(valsT + ".IncrementAccum"))
		ok := len(srt) == 1 && strings.Contains(callArg(srt[0], 0), "make([]*gemmill/types.Validator,len(a0))")
		for _, i := range inc {
			if len(srt) == 0 || !f.Dominates(srt[0], i) {
				ok = false
			}
		}
		c.R.Ob(rule, "NewValidatorSet:sort≺increment", ok, c.P.Pos(f.F.Pos()), fname(f), "validators must be sorted by address before the first IncrementAccum / use")
	}
	if f := c.Anchor(rule, valsT+".Hash"); f != nil {
		ok := false
		for _, st := range f.Stores(func(a string) bool {
			return strings.HasPrefix(a, "make([]gemmill/modules/go-merkle.Hashable,len(a0.Validators))[(phi(-1|loop) + 1)]")
		}) {
			if cfgx.Expr(st.Val) == "a0.Validators[(phi(-1|loop) + 1)]" {
				ok = true
			}
		}
		rangeMap := false
		for _, b := range f.F.Blocks {
			for _, ins := range b.Instrs {
				if r, isR := ins.(*ssa.Range); isR {
					if _, isMap := r.X.Type().Underlying().(*types.Map); isMap {
						rangeMap = true
					}
				}
			}
		}
		c.R.Ob(rule, "Hash:in-slice-order", ok && !rangeMap, c.P.Pos(f.F.Pos()), fname(f), "validator-set hash must hash element i at position i (sorted slice), without map iteration")
	}
}

// c16R6: the position bookkeeping of the priority queue behind IncrementAccum's heap
// (pq[k].index == k for every k; Heap.Update re-sifts the slot recorded in the item).
// c16R7: the rotation count is replicated data, and the set owns its elements.
func c16R7(c *Ctx) {
	rule := c.R.Rule("R7", "rotation count and element ownership: State.ExecBlock rotates the next set by the constant 1 per height (never by a node-local quantity such as the commit round); enterNewRound rotates its private copy by round - cs.Round; Add/Update store a copy of the caller's Validator, never the caller's object", 4)
	if f := c.Anchor(rule, "gemmill/state.(*State).ExecBlock"); f != nil {
		for _, ci := range f.CallsTo(cfgx.Named(valsT + ".IncrementAccum")) {
			c.R.Ob(rule, "ExecBlock:IncrementAccum(1)", callArg(ci, 1) == "1", c.Pos(ci), fname(f), "the per-height rotation must be the same on every replica, however it learnt the block (consensus round, fast sync, replay): got IncrementAccum("+shorten(callArg(ci, 1))+")")
		}
	}
	if f := c.Anchor(rule, "gemmill/consensus/pbft.(*ConsensusState).enterNewRound"); f != nil {
		for _, ci := range f.CallsTo(cfgx.Named(valsT + ".IncrementAccum")) {
			c.R.Ob(rule, "enterNewRound:IncrementAccum(round-cs.Round)", callArg(ci, 1) == "(a2 - a0.RoundState.Round)", c.Pos(ci), fname(f), "got "+shorten(callArg(ci, 1)))
		}
	}
	cp := "gemmill/types.(*Validator).Copy(a1)"
	if f := c.Anchor(rule, valsT+".Update"); f != nil {
		n := 0
		for _, st := range f.Stores(func(a string) bool { return strings.HasPrefix(a, "a0.Validators[") }) {
			n++
			c.R.Ob(rule, "Update:stores-copy", exprOf(st.Val) == cp, c.Pos(st), fname(f), "the set must own its element: storing the caller's *Validator lets later mutations of that object (the admin plugin reuses it) change accum/power inside the set; stored "+shorten(exprOf(st.Val)))
		}
		if n == 0 {
			c.R.Undecided(rule, "Update:element-store", c.P.Pos(f.F.Pos()), fname(f), "no element store")
		}
	}
	if f := c.Anchor(rule, valsT+".Add"); f != nil {
		n := 0
		for _, b := range f.F.Blocks {
			for _, ins := range b.Instrs {
				st, ok := ins.(*ssa.Store)
				if !ok || !f.Live(ins) {
					continue
				}
				// stores of a *Validator into a slice element
				if _, isIdx := st.Addr.(*ssa.IndexAddr); isIdx && strings.HasSuffix(st.Val.Type().String(), "types.Validator") {
					n++
					// Add re-binds its parameter (`val = val.Copy()`): a Copy() call must dominate the store and the
					// stored value must not be the parameter itself
					_, isParam := st.Val.(*ssa.Parameter)
					copied := false
					for _, ci := range f.CallsTo(cfgx.Named("gemmill/types.(*Validator).Copy")) {
						if f.Dominates(ci.(ssa.Instruction), st) {
							copied = true
						}
					}
					c.R.Ob(rule, "Add:stores-copy", !isParam && (copied || exprOf(st.Val) == cp), c.Pos(st), fname(f), "stored "+shorten(exprOf(st.Val)))
				}
			}
		}
		if n == 0 {
			c.R.Undecided(rule, "Add:element-store", c.P.Pos(f.F.Pos()), fname(f), "no element store")
		}
	}
}

func c16R6(c *Ctx) {
	rule := c.R.Rule("R6", "heap position bookkeeping (IncrementAccum re-sifts the proposer through Heap.Update -> heap.Fix(pq, item.index)): priorityQueue.Push records the pushed item's slot (len before the append, or len-1 after it); Swap exchanges two slots and re-records both indices; Update fixes at the item's recorded index; Heap.Update updates the root item; Less delegates to the priorities' Less with the arguments in order", 7)
	pk := "gemmill/modules/go-common."
	if f := c.Anchor(rule, pk+"(*priorityQueue).Push"); f != nil {
		ok := false
		detail := "no store to item.index found"
		var at ssa.Instruction
		if len(f.F.Blocks) >= 1 {
			// position of the store of the appended slice
			appendAt := -1
			instrs := f.F.Blocks[0].Instrs
			for i, ins := range instrs {
				if st, isSt := ins.(*ssa.Store); isSt && exprOf(st.Addr) == "a0" {
					appendAt = i
				}
			}
			for i, ins := range instrs {
				st, isSt := ins.(*ssa.Store)
				if !isSt || !strings.HasSuffix(exprOf(st.Addr), ".index") {
					continue
				}
				at = ins
				lenPos := func(v ssa.Value) int {
					call, isCall := v.(*ssa.Call)
					if !isCall || exprOf(call) != "len(a0)" {
						return -1
					}
					for k, x := range instrs {
						if x == ssa.Instruction(call) {
							return k
						}
					}
					return -1
				}
				if lp := lenPos(st.Val); lp >= 0 {
					ok = appendAt >= 0 && lp < appendAt
					detail = fmt.Sprintf("index = len(*pq) evaluated %s the append", map[bool]string{true: "before", false: "AFTER"}[ok])
				} else if bo, isBo := st.Val.(*ssa.BinOp); isBo && bo.Op.String() == "-" && exprOf(bo.Y) == "1" {
					if lp := lenPos(bo.X); lp >= 0 {
						ok = appendAt >= 0 && lp > appendAt
						detail = "index = len(*pq)-1"
					}
				} else {
					detail = "index = " + exprOf(st.Val)
				}
				_ = i
			}
		}
		pos := c.P.Pos(f.F.Pos())
		if at != nil {
			pos = c.Pos(at)
		}
		c.R.Ob(rule, "Push:index=slot-of-appended-item", ok && len(f.F.Blocks) == 1, pos, fname(f), "the pushed item must record the slot it is appended at ("+detail+"); a wrong index makes Update/heap.Fix re-sift another slot and the proposer order diverges from the accum order")
	}
	if f := c.Anchor(rule, pk+"(priorityQueue).Swap"); f != nil {
		have := map[string]string{}
		order := []string{}
		for _, st := range f.Stores(func(string) bool { return true }) {
			have[exprOf(st.Addr)] = exprOf(st.Val)
			order = append(order, exprOf(st.Addr))
		}
		ok := have["a0[a1]"] == "a0[a2]" && have["a0[a2]"] == "a0[a1]"
		c.R.Ob(rule, "Swap:exchanges-slots", ok, c.P.Pos(f.F.Pos()), fname(f), fmt.Sprintf("stores: %v", have))
		ok2 := have["a0[a1].index"] == "a1" && have["a0[a2].index"] == "a2"
		// index stores come after the exchange
		idx := func(s string) int {
			for i, o := range order {
				if o == s {
					return i
				}
			}
			return -1
		}
		ok2 = ok2 && idx("a0[a1].index") > idx("a0[a2]") && idx("a0[a2].index") > idx("a0[a1]") && idx("a0[a1].index") > idx("a0[a1]")
		c.R.Ob(rule, "Swap:re-records-both-indices", ok2, c.P.Pos(f.F.Pos()), fname(f), fmt.Sprintf("stores in order: %v", order))
	}
	if f := c.Anchor(rule, pk+"(*priorityQueue).Update"); f != nil {
		ok := false
		for _, ci := range f.CallsTo(cfgx.Named("container/heap.Fix")) {
			ok = callArg(ci, 0) == "a0" && callArg(ci, 1) == "a1.index"
		}
		c.R.Ob(rule, "Update:Fix(pq,item.index)", ok, c.P.Pos(f.F.Pos()), fname(f), "Update must re-sift the slot recorded in the updated item")
	}
	if f := c.Anchor(rule, pk+"(*Heap).Update"); f != nil {
		ok := false
		for _, ci := range f.CallsTo(cfgx.Named(pk + "(*priorityQueue).Update")) {
			ok = callArg(ci, 1) == "a0.pq[0]" && callArg(ci, 2) == "a1" && callArg(ci, 3) == "a2"
		}
		c.R.Ob(rule, "Heap.Update:updates-root", ok, c.P.Pos(f.F.Pos()), fname(f), "Heap.Update(value, priority) replaces the root item (the one Peek returned)")
	}
	if f := c.Anchor(rule, pk+"(*Heap).Peek"); f != nil {
		ok := false
		for _, r := range f.Returns() {
			vs := f.ReturnValues(r)
			if len(vs) == 1 && exprOf(vs[0]) == "a0.pq[0].value" {
				ok = true
			}
		}
		c.R.Ob(rule, "Heap.Peek:returns-root", ok, c.P.Pos(f.F.Pos()), fname(f), "Peek returns the root's value")
	}
	if f := c.Anchor(rule, pk+"(priorityQueue).Less"); f != nil {
		ok := false
		for _, ci := range f.Calls() {
			if ci.Common().IsInvoke() && ci.Common().Method.Name() == "Less" {
				ok = exprOf(ci.Common().Value) == "a0[a1].priority" && len(ci.Common().Args) == 1 && strings.HasPrefix(exprOf(ci.Common().Args[0]), "a0[a2].priority")
			}
		}
		c.R.Ob(rule, "Less:pq[i].priority.Less(pq[j].priority)", ok, c.P.Pos(f.F.Pos()), fname(f), "argument order decides which validator is on top")
	}
	if f := c.Anchor(rule, pk+"(*priorityQueue).Pop"); f != nil {
		ok := false
		for _, st := range f.Stores(func(a string) bool { return a == "a0" }) {
			ok = exprOf(st.Val) == "a0[0:(len(a0) - 1)]"
		}
		ret := false
		for _, r := range f.Returns() {
			vs := f.ReturnValues(r)
			if len(vs) == 1 && strings.HasPrefix(exprOf(vs[0]), "a0[(len(a0) - 1)]") {
				ret = true
			}
		}
		c.R.Ob(rule, "Pop:removes-and-returns-last", ok && ret, c.P.Pos(f.F.Pos()), fname(f), "container/heap moves the minimum to the last slot before calling Pop")
	}
}
