package rules

import (
	"go/types"
	"sort"
	"strings"

	"golang.org/x/tools/go/ssa"

	"annverif/cfgx"
	"annverif/core"
	"annverif/locks"
)

func (c *Ctx) Locks() *locks.Analysis {
	if c.lk == nil {
		c.lk = locks.New(c.P, func(fn *ssa.Function) bool {
			n := core.Short(core.FuncName(fn))
			return strings.HasPrefix(n, "gemmill/") || strings.HasPrefix(n, "chain/")
		})
	}
	return c.lk
}

// lockOrderRule (C12-R3, C19-R2): the lock-order graph over named mutexes is acyclic.
func lockOrderRule(c *Ctx, id string) {
	rule := c.R.Rule(id, "lock order: the graph with an edge M1→M2 whenever M2 may be acquired (directly, through calls, not through `go`) while M1 may be held — mutexes identified by (struct type, field) — has no cycle among distinct mutexes; the pool takes tp.mtx before app.stateMtx and never the reverse", 1)
	a := c.Locks()
	var edges []string
	for e, w := range a.Edges {
		edges = append(edges, e[0]+" → "+e[1]+"   ["+w+"]")
	}
	sort.Strings(edges)
	c.R.Extra["lock_order_edges"] = edges
	cycles := a.Cycles()
	c.R.Ob(rule, "lock-order-acyclic", len(cycles) == 0, "-", "", "cycles: "+strings.Join(cycles, " ; "))
	for _, cy := range cycles {
		c.R.Ob(rule, "cycle:"+cy, false, "-", "", "two goroutines taking these mutexes in opposite orders can deadlock")
	}
	// the specific order the pool relies on
	if _, rev := a.Edges[[2]string{"chain/app/evm.EVMApp.stateMtx", "chain/app/evm.ethTxPool.mtx"}]; rev {
		c.R.Ob(rule, "stateMtx-before-pool.mtx", false, "-", "", a.Edges[[2]string{"chain/app/evm.EVMApp.stateMtx", "chain/app/evm.ethTxPool.mtx"}])
	}
	_, fwd := a.Edges[[2]string{"chain/app/evm.ethTxPool.mtx", "chain/app/evm.EVMApp.stateMtx"}]
	c.R.Ob(rule, "pool.mtx→stateMtx-edge-present", fwd, "-", "", "expected edge (the pool reads account nonces under its own lock); its absence means the analysis lost the pool's locking")
}

// GuardSpec: fields of a struct that must be accessed with a mutex held.
type GuardSpec struct {
	Type   string   // "chain/app/evm.ethTxPool"
	Mutex  string   // "chain/app/evm.ethTxPool.mtx"
	Fields []string // guarded fields
	// Exempt: function short names -> reason (constructors, reviewed lock-free readers)
	Exempt map[string]string
}

func guardedByRule(c *Ctx, rule string, specs []GuardSpec) {
	a := c.Locks()
	for _, sp := range specs {
		n := 0
		for _, fn := range c.P.RepoFuncs() {
			name := core.Short(core.FuncName(fn))
			if !(strings.HasPrefix(name, "gemmill/") || strings.HasPrefix(name, "chain/")) {
				continue
			}
			f := c.Fn(fn)
			bad := map[string]ssa.Instruction{}
			cnt := 0
			for _, b := range fn.Blocks {
				for _, ins := range b.Instrs {
					fa, ok := ins.(*ssa.FieldAddr)
					if !ok || !f.Live(ins) {
						continue
					}
					t := fa.X.Type()
					if pt, ok := t.Underlying().(*types.Pointer); ok {
						t = pt.Elem()
					}
					nt, ok := t.(*types.Named)
					if !ok || nt.Obj().Pkg() == nil || core.Short(nt.Obj().Pkg().Path())+"."+nt.Obj().Name() != sp.Type {
						continue
					}
					fld := nt.Underlying().(*types.Struct).Field(fa.Field).Name()
					guarded := false
					for _, g := range sp.Fields {
						if g == fld {
							guarded = true
						}
					}
					if !guarded {
						continue
					}
					cnt++
					if !a.MustHeld(ins)[sp.Mutex] {
						if _, seen := bad[fld]; !seen {
							bad[fld] = ins
						}
					}
				}
			}
			if cnt == 0 {
				continue
			}
			n++
			if !fn.Object().Exported() && fn.Parent() == nil && len(c.P.Callers(fn)) == 0 {
				c.R.Note("guarded-by: %s is unexported and has no caller in the program (dead code); skipped — a future caller is checked through held-at-entry", name)
				continue
			}
			if why, ex := sp.Exempt[name]; ex {
				c.R.Note("guarded-by exempt: %s accesses %s fields without %s (%s)", name, sp.Type, sp.Mutex, why)
				continue
			}
			var flds []string
			pos := c.P.Pos(fn.Pos())
			for k, ins := range bad {
				flds = append(flds, k)
				pos = c.Pos(ins)
			}
			sort.Strings(flds)
			c.R.Ob(rule, "guarded-by:"+sp.Type+":"+name, len(bad) == 0, pos, core.FuncName(fn),
				"field(s) "+strings.Join(flds, ",")+" of "+sp.Type+" accessed without "+sp.Mutex+" held here or by every caller (held at entry: "+strings.Join(a.MustIn[fn].Sorted(), ",")+")")
		}
		if n == 0 {
			c.R.Undecided(rule, "guarded-by:"+sp.Type, "-", "", "no access to the guarded fields found")
		}
	}
	_ = cfgx.Expr
}
