package rules

import (
	"fmt"
	"go/token"
	"strings"

	"golang.org/x/tools/go/ssa"

	"annverif/cfgx"
	"annverif/core"
	"annverif/dtable"
)

const tvp = "gemmill/types.(*ValidatorSet).TotalVotingPower("

// QuorumSite is a comparison one side of which is arithmetic over TotalVotingPower().
type QuorumSite struct {
	Fn    *cfgx.Fn
	Cmp   *ssa.BinOp
	Class string // "P" (≡ 3x>2T), "notP", "eq" (==/!= : an all-power test), "other", or "undecided:<why>"
	X     string // the tally leaf
}

func isCmpOp(op token.Token) bool {
	switch op {
	case token.LSS, token.LEQ, token.GTR, token.GEQ, token.EQL, token.NEQ:
		return true
	}
	return false
}

// collectLeaves walks an arithmetic tree; returns leaves that are neither constants nor TotalVotingPower calls.
func collectLeaves(v ssa.Value, tleaf, xleaf map[string]bool) {
	e := cfgx.Expr(v)
	if strings.HasPrefix(e, tvp) {
		tleaf[e] = true
		return
	}
	switch x := v.(type) {
	case *ssa.Const:
		return
	case *ssa.Convert:
		collectLeaves(x.X, tleaf, xleaf)
		return
	case *ssa.ChangeType:
		collectLeaves(x.X, tleaf, xleaf)
		return
	case *ssa.BinOp:
		switch x.Op {
		case token.ADD, token.SUB, token.MUL, token.QUO:
			collectLeaves(x.X, tleaf, xleaf)
			collectLeaves(x.Y, tleaf, xleaf)
			return
		}
	case *ssa.UnOp:
		if x.Op == token.MUL { // load
			if al, ok := x.X.(*ssa.Alloc); ok {
				_ = al
			}
		}
	}
	xleaf[e] = true
}

// classifyQuorum evaluates the comparison for all 0<=T<=240, 0<=x<=T+1 and compares with 3x>2T.
func classifyQuorum(cmp *ssa.BinOp) (class, xl string) {
	tl, xlv := map[string]bool{}, map[string]bool{}
	collectLeaves(cmp.X, tl, xlv)
	collectLeaves(cmp.Y, tl, xlv)
	if len(tl) == 0 {
		return "", ""
	}
	if len(tl) != 1 {
		return "undecided:several distinct TotalVotingPower receivers", ""
	}
	if len(xlv) != 1 {
		return fmt.Sprintf("undecided:%d non-constant leaves besides the total (%v)", len(xlv), sortedKeys(xlv)), ""
	}
	var tk, xk string
	for k := range tl {
		tk = k
	}
	for k := range xlv {
		xk = k
	}
	if cmp.Op == token.EQL || cmp.Op == token.NEQ {
		return "eq", xk
	}
	allP, allN := true, true
	for T := int64(0); T <= 240; T++ {
		for x := int64(0); x <= T+1; x++ {
			got, err := dtable.EvalBool(cmp, dtable.Env{tk: T, xk: x})
			if err != nil {
				return "undecided:" + err.Error(), xk
			}
			want := 3*x > 2*T
			if got != want {
				allP = false
			}
			if got == want {
				allN = false
			}
		}
	}
	switch {
	case allP:
		return "P", xk
	case allN:
		return "notP", xk
	}
	return "other", xk
}

// QuorumSites scans node packages (gemmill/, chain/) for threshold comparisons.
func (c *Ctx) QuorumSites() []QuorumSite {
	var out []QuorumSite
	for _, fn := range c.P.RepoFuncs() {
		n := core.Short(core.FuncName(fn))
		if !strings.HasPrefix(n, "gemmill/") && !strings.HasPrefix(n, "chain/") {
			continue
		}
		f := c.Fn(fn)
		for _, b := range fn.Blocks {
			for _, ins := range b.Instrs {
				cmp, ok := ins.(*ssa.BinOp)
				if !ok || !isCmpOp(cmp.Op) || !f.Live(ins) {
					continue
				}
				class, x := classifyQuorum(cmp)
				if class == "" {
					continue
				}
				out = append(out, QuorumSite{f, cmp, class, x})
			}
		}
	}
	return out
}

// TallySite: an addition whose addend is a validator's voting power.
type TallySite struct {
	Fn     *cfgx.Fn
	Add    *ssa.BinOp
	Addend string
	Acc    string
}

// TallySites finds ADD instructions in node packages where one operand renders to a path ending in
// ".VotingPower", or is a parameter that receives such a value at every static call site.
func (c *Ctx) TallySites() []TallySite {
	var out []TallySite
	for _, fn := range c.P.RepoFuncs() {
		n := core.Short(core.FuncName(fn))
		if !strings.HasPrefix(n, "gemmill/") && !strings.HasPrefix(n, "chain/") {
			continue
		}
		f := c.Fn(fn)
		for _, b := range fn.Blocks {
			for _, ins := range b.Instrs {
				add, ok := ins.(*ssa.BinOp)
				if !ok || add.Op != token.ADD || !f.Live(ins) {
					continue
				}
				for _, pair := range [][2]ssa.Value{{add.X, add.Y}, {add.Y, add.X}} {
					acc, addend := pair[0], pair[1]
					e := cfgx.Expr(addend)
					isPower := strings.HasSuffix(e, ".VotingPower")
					if !isPower {
						if prm, ok := addend.(*ssa.Parameter); ok && c.paramIsPower(fn, prm) {
							isPower = true
						}
					}
					if isPower && !strings.HasSuffix(cfgx.Expr(acc), ".VotingPower") {
						out = append(out, TallySite{f, add, e, cfgx.Expr(acc)})
						break
					}
				}
			}
		}
	}
	return out
}

func (c *Ctx) paramIsPower(fn *ssa.Function, prm *ssa.Parameter) bool {
	idx := -1
	for i, p := range fn.Params {
		if p == prm {
			idx = i
		}
	}
	if idx < 0 || c.P.CG == nil {
		return false
	}
	edges := c.P.Callers(fn)
	if len(edges) == 0 {
		return false
	}
	for _, e := range edges {
		if e.Site == nil {
			return false
		}
		args := e.Site.Common().Args
		if e.Site.Common().IsInvoke() || idx >= len(args) {
			return false
		}
		ae := cfgx.Expr(args[idx])
		if strings.HasSuffix(ae, ".VotingPower") {
			continue
		}
		if p2, ok := args[idx].(*ssa.Parameter); ok && c.paramIsPower(e.Caller.Func, p2) {
			continue
		}
		return false
	}
	return true
}
