package rules

import (
	"fmt"
	"go/token"
	"strings"

	"golang.org/x/tools/go/ssa"

	"annverif/cfgx"
	"annverif/core"
)

func init() {
	Registry["C19"] = c19
	Metas["C19"] = Meta{Level: "other", NeedCG: true,
		Technique: "static analysis: guarded-by (lockset) check of the pool's shared fields over the call graph, lock-order graph, edge-dominance of the capacity and duplicate tests before every insertion, per-iteration recomputation of the promotion allowance",
		Explain:   "The behavioural clauses of this property (nonce order offered, no loss, no re-offer) quantify over histories of submissions and commits and are (R6) the state nonce is read inside the admission critical section and list walks survive removals. NOT decided. Decided are structural necessary conditions: (R1) every access to the EVM pool's shared maps and lists (pending, waiting, waitingBeats, all, extTxs, broadcastQueue) happens with tp.mtx held, here or by every caller; the generic mempool's dedup cache is accessed under its own mutex; (R2) lock order: tp.mtx before app.stateMtx, never the reverse; the lock-order graph is acyclic; (R3) bound before insert: the waiting queue insertion is edge-dominated by waitingTxCount < waitingLimit, pending insertion by pendingTxCount < pendingLimit with the allowance recomputed for every account inside the promotion loop, the admin and broadcast lists evict their oldest entry when at their limit, and the generic mempool tests its limit before PushBack; (R4) duplicate before insert: CheckAndAdd looks the hash up in tp.all before addWaiting and records it afterwards, txSortedMap.Add refuses an existing nonce, the admin list is scanned before PushBack, and the generic mempool appends only when txCache.Push reported the transaction as new; (R5) stale nonces are rejected before insertion and promotion starts at the account's state nonce.",
		Assume:    []string{"go-clist is internally synchronised", "the state nonce read under stateMtx is the committed one"},
	}
}

const tpT = "chain/app/evm.(*ethTxPool)"

func c19(c *Ctx) {
	c19R1(c)
	lockOrderRule(c, "R2")
	c19R3(c)
	c19R4(c)
	c19R5(c)
	c19R6(c)
	c19R7(c)
	c19R8(c)
	c19R9(c)
}

func c19R1(c *Ctx) {
	rule := c.R.Rule("R1", "guarded-by: ethTxPool.{pending,waiting,waitingBeats,all,extTxs,broadcastQueue} are accessed only with ethTxPool.mtx held (in the function or by every caller); txCache.{checkMap,list} only with txCache.mtx held", 15)
	guardedByRule(c, rule, []GuardSpec{
		{Type: "chain/app/evm.ethTxPool", Mutex: "chain/app/evm.ethTxPool.mtx",
			Fields: []string{"pending", "waiting", "waitingBeats", "all", "extTxs", "broadcastQueue"},
			Exempt: map[string]string{
				"chain/app/evm.NewEthTxPool":              "constructor: the pool is not shared yet",
				"chain/app/evm.(*ethTxPool).TxsFrontWait": "reads the broadcast clist's own concurrent, internally locked front pointer (the gossip routine blocks here; taking tp.mtx would block the pool)",
			}},
		{Type: "gemmill/mempool.txCache", Mutex: "gemmill/mempool.txCache.mtx", Fields: []string{"checkMap", "list"},
			Exempt: map[string]string{"gemmill/mempool.newTxCache": "constructor"}},
	})
}

func c19R3(c *Ctx) {
	rule := c.R.Rule("R3", "bound before insert: addWaiting inserts only under waitingTxCount<waitingLimit (else replace-or-reject); promoteExecutables asks ReadyN for at most pendingLimit-pendingTxCount transactions, recomputed inside the per-account loop, and returns when the count reached the limit; handleAdminOP / broadcastNewTx remove the oldest entry when at their limit; Mempool.ReceiveTx tests its limit before PushBack", 6)
	if f := c.Anchor(rule, tpT+".addWaiting"); f != nil {
		adds := f.CallsTo(cfgx.Named("chain/app/evm.(*txSortedMap).Add"))
		if len(adds) == 0 {
			c.R.Undecided(rule, "addWaiting:Add", c.P.Pos(f.F.Pos()), fname(f), "no insertion found")
		}
		for _, ci := range adds {
			ok := f.HasGuard(ci, func(g string) bool { return strings.HasSuffix(g, " < a0.waitingLimit)") && strings.Contains(g, "loop") })
			if !ok {
				// the count may be computed by a helper of the pool that sums over tp.waiting
				for _, g := range f.Guards(ci.(ssa.Instruction)) {
					bo, isBo := g.Cond.(*ssa.BinOp)
					if !isBo || exprOf(bo.Y) != "a0.waitingLimit" || !((bo.Op == token.LSS && g.Pol) || (bo.Op == token.GEQ && !g.Pol)) {
						continue
					}
					if cl, isCall := bo.X.(*ssa.Call); isCall {
						if callee := cl.Call.StaticCallee(); callee != nil && callee.Blocks != nil && len(cl.Call.Args) == 1 && exprOf(cl.Call.Args[0]) == "a0" {
							for _, b := range callee.Blocks {
								for _, ins := range b.Instrs {
									if r, isR := ins.(*ssa.Range); isR && exprOf(r.X) == "a0.waiting" {
										ok = true
									}
								}
							}
						}
					}
				}
			}
			c.R.Ob(rule, "addWaiting:Add⊣count<waitingLimit", ok, c.Pos(ci), fname(f), "the waiting queue grows although it is at its limit; "+guardsText(f, ci))
		}
	}
	if f := c.Anchor(rule, tpT+".promoteExecutables"); f != nil {
		rn := f.CallsTo(cfgx.Named("chain/app/evm.(*txSortedMap).ReadyN"))
		fw := f.CallsTo(cfgx.Named("chain/app/evm.(*txSortedMap).Forward"))
		if len(rn) != 1 || len(fw) != 1 {
			c.R.Undecided(rule, "promote:sites", c.P.Pos(f.F.Pos()), fname(f), "expected one ReadyN and one Forward call")
		} else {
			arg := rn[0].Common().Args[2]
			sub, isSub := arg.(*ssa.BinOp)
			ok := isSub && sub.Op.String() == "-" && cfgx.Expr(sub.X) == "a0.pendingLimit" && f.Dominates(fw[0], sub)
			c.R.Ob(rule, "promote:allowance=pendingLimit-count-per-account", ok, c.Pos(rn[0]), fname(f), "the number of transactions promoted for an account must be computed from the CURRENT pending count inside the loop (a value computed once lets several accounts each take the whole remaining room); allowance = "+shorten(cfgx.Expr(arg)))
			c.R.Ob(rule, "promote:ReadyN⊣count<pendingLimit", f.HasGuard(rn[0], func(g string) bool { return strings.HasSuffix(g, " < a0.pendingLimit)") }), c.Pos(rn[0]), fname(f), guardsText(f, rn[0]))
			// the count is incremented per successful pending insert
			inc := false
			for _, ci := range f.CallsTo(cfgx.Named("chain/app/evm.(*txSortedMap).Add")) {
				if f.Dominates(rn[0], ci) {
					inc = true
				}
			}
			c.R.Ob(rule, "promote:pending.Add-after-ReadyN", inc, c.P.Pos(f.F.Pos()), fname(f), "promoted transactions are added to pending")
		}
	}
	for _, spec := range []struct{ fn, list, limit string }{
		{tpT + ".handleAdminOP", "a0.extTxs", "a0.pendingLimit"},
		{tpT + ".broadcastNewTx", "a0.broadcastQueue", "(a0.waitingLimit + a0.pendingLimit)"},
	} {
		f := c.Anchor(rule, spec.fn)
		if f == nil {
			continue
		}
		full := "(gemmill/modules/go-clist.(*CList).Len(" + spec.list + ") >= " + spec.limit + ")"
		okEvict := false
		var evict ssa.CallInstruction
		for _, ci := range f.CallsTo(cfgx.Named("gemmill/modules/go-clist.(*CList).Remove")) {
			if callArg(ci, 0) == spec.list && f.HasGuard(ci, cfgx.Equals(full)) {
				okEvict, evict = true, ci
			}
		}
		c.R.Ob(rule, core.Short(spec.fn)+":evict-oldest-when-full", okEvict, c.P.Pos(f.F.Pos()), fname(f), "when the list is at its limit the oldest element must be removed before the new one is appended")
		for _, pb := range f.CallsTo(cfgx.Named("gemmill/modules/go-clist.(*CList).PushBack")) {
			if callArg(pb, 0) != spec.list {
				continue
			}
			// every path to PushBack either saw Len<limit or executed the eviction
			ok, why := everyPath(f, pb, func(g map[string]bool) bool {
				return g["(gemmill/modules/go-clist.(*CList).Len("+spec.list+") < "+spec.limit+")"] || g[full]
			})
			c.R.Ob(rule, core.Short(spec.fn)+":PushBack-after-bound-test", ok && (evict == nil || !f.Reaches(pb, evict)), c.Pos(pb), fname(f), why)
		}
	}
	if f := c.Anchor(rule, "gemmill/mempool.(*Mempool).ReceiveTx"); f != nil {
		for _, pb := range f.CallsTo(cfgx.Named("gemmill/modules/go-clist.(*CList).PushBack")) {
			ok, why := everyPath(f, pb, func(g map[string]bool) bool {
				for k := range g {
					if strings.HasPrefix(k, "!github.com/spf13/viper.(*Viper).GetBool(a0.config,") || k == "(gemmill/modules/go-clist.(*CList).Len(a0.txs) <= a0.txLimit)" {
						return true
					}
				}
				return false
			})
			c.R.Ob(rule, "Mempool.ReceiveTx:PushBack-after-limit-test", ok, c.Pos(pb), fname(f), why)
		}
	}
}

func c19R4(c *Ctx) {
	rule := c.R.Rule("R4", "duplicate before insert: CheckAndAdd calls addWaiting only after a miss in tp.all and records the hash in tp.all after a successful insertion; txSortedMap.Add refuses a nonce that is present; handleAdminOP scans extTxs for an equal entry before PushBack; Mempool.ReceiveTx appends only under cache.Push(tx)==true", 5)
	if f := c.Anchor(rule, tpT+".CheckAndAdd"); f != nil {
		aw := f.CallsTo(cfgx.Named(tpT + ".addWaiting"))
		if len(aw) != 1 {
			c.R.Undecided(rule, "CheckAndAdd:addWaiting", c.P.Pos(f.F.Pos()), fname(f), "expected one addWaiting call")
		}
		for _, ci := range aw {
			ok := f.HasGuard(ci, func(g string) bool { return strings.HasPrefix(g, "!a0.all[eth/core/types.(*Transaction).Hash(a1)]#1") })
			c.R.Ob(rule, "CheckAndAdd:addWaiting⊣not-in-all", ok, c.Pos(ci), fname(f), "an exact duplicate must be rejected before it is queued; "+guardsText(f, ci))
			rec := false
			for _, b := range f.F.Blocks {
				for _, ins := range b.Instrs {
					if mu, isMU := ins.(*ssa.MapUpdate); isMU && cfgx.Expr(mu.Map) == "a0.all" && cfgx.Expr(mu.Key) == "eth/core/types.(*Transaction).Hash(a1)" && f.Dominates(ci, mu) &&
						f.HasGuard(mu, cfgx.Equals("("+cfgx.Expr(ci.(*ssa.Call))+" == nil)")) {
						rec = true
					}
				}
			}
			c.R.Ob(rule, "CheckAndAdd:records-hash-after-insert", rec, c.Pos(ci), fname(f), "tp.all must learn the hash exactly when the transaction was queued")
		}
	}
	if f := c.Anchor(rule, "chain/app/evm.(*txSortedMap).Add"); f != nil {
		ok := false
		for _, ci := range f.CallsTo(cfgx.Named("chain/app/evm.(*txSortedMap).Put")) {
			ok = f.HasGuard(ci, cfgx.Equals("!a0.items[eth/core/types.(*Transaction).Nonce(a1)]#1"))
		}
		c.R.Ob(rule, "txSortedMap.Add:refuses-existing-nonce", ok, c.P.Pos(f.F.Pos()), fname(f), "two transactions of one account with the same nonce must not both be held")
	}
	if f := c.Anchor(rule, tpT+".handleAdminOP"); f != nil {
		ok := false
		for _, r := range f.Returns() {
			if cfgx.Expr(f.ReturnValues(r)[0]) == "g:chain/app/evm.errTxExist" && f.HasGuard(r, func(g string) bool { return strings.HasPrefix(g, "bytes.Equal(a1,") }) {
				ok = true
			}
		}
		c.R.Ob(rule, "handleAdminOP:rejects-equal-entry", ok, c.P.Pos(f.F.Pos()), fname(f), "an admin request already in the list must be rejected")
	}
	// every append to Mempool.txs, wherever it lives, is reached only with cache.Push(tx)==true
	nPB := 0
	for _, fn := range c.P.FuncsOfPkg("gemmill/mempool") {
		f := c.Fn(fn)
		for _, pb := range f.CallsTo(cfgx.Named("gemmill/modules/go-clist.(*CList).PushBack")) {
			if callArg(pb, 0) != "a0.txs" {
				continue
			}
			nPB++
			isPush := func(g string) bool { return strings.HasPrefix(g, "gemmill/mempool.(*txCache).Push(a0.cache,") }
			ok := f.HasGuard(pb, isPush)
			where := "locally"
			if !ok {
				// one level up: every caller must call under the guard
				edges := c.P.Callers(fn)
				if len(edges) == 0 && !fn.Object().Exported() {
					c.R.Note("%s appends to Mempool.txs but has no caller (dead helper); checked through its callers once it has any", core.Short(fname(f)))
					nPB--
					continue
				}
				ok = len(edges) > 0
				where = "in every caller"
				for _, e := range edges {
					cf := c.Fn(e.Caller.Func)
					if !cf.HasGuard(e.Site, isPush) {
						ok = false
						where = "not in caller " + core.Short(core.FuncName(e.Caller.Func))
					}
				}
			}
			c.R.Ob(rule, "Mempool.txs.PushBack-in:"+core.Short(fname(f))+"⊣cache.Push-new", ok, c.Pos(pb), fname(f), "the dedup cache's atomic test-and-insert decides whether a transaction is new; ignoring its result lets two concurrent submitters of the same bytes both append ("+where+"); "+guardsText(f, pb))
		}
	}
	if nPB == 0 {
		c.R.Undecided(rule, "Mempool.txs.PushBack", "-", "", "no append to the mempool list found")
	}
	if f := c.Anchor(rule, "gemmill/mempool.(*txCache).Push"); f != nil {
		ok := false
		for _, b := range f.F.Blocks {
			for _, ins := range b.Instrs {
				if mu, isMU := ins.(*ssa.MapUpdate); isMU && cfgx.Expr(mu.Map) == "a0.checkMap" && f.HasGuard(mu, cfgx.Equals("!a0.checkMap[a1]#1")) {
					ok = true
				}
			}
		}
		c.R.Ob(rule, "txCache.Push:test-and-insert", ok, c.P.Pos(f.F.Pos()), fname(f), "insert only on a miss, under the cache mutex (R1)")
	}
}

func c19R5(c *Ctx) {
	rule := c.R.Rule("R5", "stale nonce rejected / promotion from the state nonce: CheckAndAdd returns an error when the account's state nonce exceeds tx.Nonce() before queuing; promoteExecutables drops entries below the state nonce (Forward(nonce)) and promotes from it (ReadyN(nonce, ...)) with nonce = safeGetNonce(addr); ReadyN only returns a run of consecutive nonces starting at the heap minimum when that minimum is <= start", 5)
	if f := c.Anchor(rule, tpT+".CheckAndAdd"); f != nil {
		for _, ci := range f.CallsTo(cfgx.Named(tpT + ".addWaiting")) {
			ok := f.HasGuard(ci, func(g string) bool {
				return strings.HasPrefix(g, "(chain/app/evm.(*ethTxPool).safeGetNonce(a0,") && strings.HasSuffix(g, " <= eth/core/types.(*Transaction).Nonce(a1))")
			})
			c.R.Ob(rule, "CheckAndAdd:addWaiting⊣nonce-not-stale", ok, c.Pos(ci), fname(f), guardsText(f, ci))
		}
	}
	if f := c.Anchor(rule, tpT+".updateToState"); f != nil {
		cs := f.CallsTo(cfgx.Named(tpT + ".promoteExecutables"))
		ok := len(cs) > 0
		for _, ci := range cs {
			if !cfgx.IsNilConst(ci.Common().Args[1]) {
				ok = false
			}
		}
		c.R.Ob(rule, "updateToState:promote-all-accounts", ok, c.P.Pos(f.F.Pos()), fname(f), "after a commit every account with waiting transactions is re-examined (promoteExecutables(nil) = all accounts): a block proposed elsewhere advances nonces of accounts that had nothing pending here")
	}
	if f := c.Anchor(rule, tpT+".promoteExecutables"); f != nil {
		n := "chain/app/evm.(*ethTxPool).safeGetNonce(a0,"
		for _, name := range []string{"Forward", "ReadyN"} {
			for _, ci := range f.CallsTo(cfgx.Named("chain/app/evm.(*txSortedMap)." + name)) {
				c.R.Ob(rule, "promote:"+name+"(state-nonce)", strings.HasPrefix(callArg(ci, 1), n), c.Pos(ci), fname(f), name+" threshold must be the account's nonce in the committed state, got "+shorten(callArg(ci, 1)))
			}
		}
	}
	if f := c.Anchor(rule, "chain/app/evm.(*txSortedMap).ReadyN"); f != nil {
		// early nil return when heap minimum > start; consecutive run test `(*m.index)[0] == next`
		okGap := false
		for _, r := range f.Returns() {
			if cfgx.IsNilConst(f.ReturnValues(r)[0]) {
				okGap = true
			}
		}
		run := false
		for _, b := range f.F.Blocks {
			for _, ins := range b.Instrs {
				if iff, isIf := ins.(*ssa.If); isIf {
					e := cfgx.Expr(iff.Cond)
					if strings.HasPrefix(e, "(a0.index[0] == ") {
						run = true
					}
				}
			}
		}
		c.R.Ob(rule, "ReadyN:consecutive-run-from-minimum", okGap && run, c.P.Pos(f.F.Pos()), fname(f), "only a gap-free run of nonces may be promoted")
		gap := false
		for _, b := range f.F.Blocks {
			for _, ins := range b.Instrs {
				if iff, isIf := ins.(*ssa.If); isIf && cfgx.Expr(iff.Cond) == "(a0.index[0] > a1)" {
					gap = true
				}
			}
		}
		c.R.Ob(rule, "ReadyN:nothing-when-minimum-above-start", gap, c.P.Pos(f.F.Pos()), fname(f), "a queue whose lowest nonce is above the account nonce is not executable")
	}
}

// c19R6: the nonce that admission decides on is read under the pool lock; list iteration survives removal.
func c19R6(c *Ctx) {
	rule := c.R.Rule("R6", "consistent admission view and complete refresh: in CheckAndAdd the account's state nonce (safeGetNonce) is read with ethTxPool.mtx held, i.e. in the same critical section as the duplicate check and the insertion (a commit cannot advance the nonce in between); a loop that walks a clist with e.Next() never calls DetachNext on the element it stands on (the walk would stop after the first removal and committed entries would stay in the pool)", 3)
	a := c.Locks()
	if f := c.Anchor(rule, tpT+".CheckAndAdd"); f != nil {
		n := 0
		for _, ci := range f.CallsTo(cfgx.Named(tpT + ".safeGetNonce")) {
			n++
			held := a.MustHeld(ci.(ssa.Instruction))
			c.R.Ob(rule, "CheckAndAdd:safeGetNonce-under-pool-lock", held["chain/app/evm.ethTxPool.mtx"], c.Pos(ci), fname(f), fmt.Sprintf("locks held at the read: %v", held.Sorted()))
		}
		if n == 0 {
			c.R.Undecided(rule, "CheckAndAdd:safeGetNonce", c.P.Pos(f.F.Pos()), fname(f), "no nonce read")
		}
	}
	walks := 0
	for _, fn := range c.P.FuncsOfPkg("chain/app/evm") {
		if fn.Blocks == nil {
			continue
		}
		f := c.Fn(fn)
		next := map[string]bool{}
		for _, ci := range f.CallsTo(cfgx.Named("gemmill/modules/go-clist.(*CElement).Next")) {
			next[callArg(ci, 0)] = true
		}
		if len(next) == 0 {
			continue
		}
		walks++
		bad := ""
		for _, ci := range f.CallsTo(cfgx.Named("gemmill/modules/go-clist.(*CElement).DetachNext")) {
			if next[callArg(ci, 0)] {
				bad = c.Pos(ci)
			}
		}
		c.R.Ob(rule, "list-walk:"+core.Short(core.FuncName(fn))+":next-kept-until-advanced", bad == "", c.P.Pos(fn.Pos()), core.FuncName(fn), "DetachNext on the loop element at "+bad+" makes e.Next() nil: the refresh stops after the first committed entry")
	}
	c.R.Ob(rule, "list-walks", walks >= 2, "-", "", fmt.Sprintf("%d functions walk a clist with Next()", walks))
}
