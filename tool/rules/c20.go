package rules

import (
	"fmt"
	"go/token"
	"go/types"
	"strings"

	"golang.org/x/tools/go/ssa"

	"annverif/cfgx"
	"annverif/core"
)

func init() {
	Registry["C20"] = c20
	Metas["C20"] = Meta{Level: "other", NeedCG: true,
		Technique: "static analysis: edge-dominance / all-paths predicates on the admission gates, closure free-variable provenance for the authority set, seal/open-nonce pairing on every path, copy-count dataflow of io.Reader implementations, bound-before-slice on frame lengths",
		Explain:   "Static analysis of the p2p transport and admission code. Decided: (R1) Switch.AddPeerWithConnection adds a peer only after, on every path, the address filter, the secret-connection handshake (when enabled), the refuse-list filter, the public-key filter, the node handshake (which includes the certificate-authority check), the announced-key==authenticated-key test, the self test and the data exchange all passed; peers.Add has no other caller; every failing gate closes the connection; (R2) the CA filter reads the CURRENT validator set each time it runs (the ** is dereferenced inside the closure); the refuse-list filter queries the list at call time; (R3) every secretbox.Seal/Open with the connection's nonce is followed on all success paths by the two-step nonce increment, a failed Open returns an error without incrementing, the two directions start from nonces that differ, and incr2Nonce steps by two; (R4) every Read(p []byte) in p2p/types returns, on each path, the count produced by the copy into p on that path; (R5) the remote identity is stored only after the challenge signature verified under that key, and the challenge derives from both ephemeral keys; (R6) the chunk length is bounded before the frame is sliced; the receive-capacity check precedes reassembly; (R7) nextMsgPacket marks EOF exactly when the remainder fits one packet and the receiver returns the buffer exactly on EOF. (R2 also) nothing is read through the ** when the filter is built; (R8) sendMsgPacket reports exhaustion only when nothing was pending or the write failed. NOT decided: cryptographic strength, behaviour under tampering at run time.",
		Assume:    []string{"NaCl secretbox/box are secure", "go-crypto VerifyBytes is sound"},
	}
}

const swT = "gemmill/p2p.(*Switch)"
const scT = "gemmill/p2p.(*SecretConnection)"

func c20(c *Ctx) {
	c20R1(c)
	c20R2(c)
	c20R3(c)
	c20R4(c)
	c20R5(c)
	c20R6(c)
	c20R7(c)
	c20R8(c)
	c20R9(c)
	c20R10(c)
	c20R11(c)
	c20R12(c)
	c20R13(c)
}

func c20R1(c *Ctx) {
	rule := c.R.Rule("R1", "admission gate: sw.peers.Add(peer) in AddPeerWithConnection is reached only through the passing edge of FilterConnByAddr, MakeSecretConnection (if auth_enc), FilterConnByRefuselist, FilterConnByPubKey, peerHandshake (which returns AuthByCA's error), PubKey.Equals(RemotePubKey()) (if auth_enc), not-self and exchangeData; Add has no other caller; each failing gate closes the connection", 12)
	f := c.Anchor(rule, swT+".AddPeerWithConnection")
	if f == nil {
		return
	}
	adds := f.CallsTo(func(n string) bool { return n == "iface:gemmill/p2p.IPeerSet.Add" || n == "gemmill/p2p.(*PeerSet).Add" })
	if len(adds) != 1 {
		c.R.Undecided(rule, "Add:site", c.P.Pos(f.F.Pos()), fname(f), fmt.Sprintf("expected one peers.Add, found %d", len(adds)))
		return
	}
	add := adds[0]
	has := func(g map[string]bool, pred func(string) bool) bool {
		for k := range g {
			if pred(k) {
				return true
			}
		}
		return false
	}
	gates := []struct {
		name string
		pred func(g map[string]bool) bool
	}{
		{"FilterConnByAddr", func(g map[string]bool) bool {
			return has(g, func(s string) bool {
				return strings.HasPrefix(s, "(gemmill/p2p.(*Switch).FilterConnByAddr(a0,") && strings.HasSuffix(s, " == nil)")
			})
		}},
		{"MakeSecretConnection-if-auth_enc", func(g map[string]bool) bool {
			return has(g, func(s string) bool {
				return strings.HasPrefix(s, "!github.com/spf13/viper.(*Viper).GetBool(a0.config,")
			}) ||
				has(g, func(s string) bool {
					return strings.HasPrefix(s, "(gemmill/p2p.MakeSecretConnection(a1,a0.nodePrivKey)#1 == nil)")
				})
		}},
		{"FilterConnByRefuselist", func(g map[string]bool) bool {
			return has(g, func(s string) bool {
				return strings.HasPrefix(s, "(gemmill/p2p.(*Switch).FilterConnByRefuselist(a0,") && strings.HasSuffix(s, " == nil)")
			})
		}},
		{"FilterConnByPubKey", func(g map[string]bool) bool {
			return has(g, func(s string) bool {
				return strings.HasPrefix(s, "(gemmill/p2p.(*Switch).FilterConnByPubKey(a0,") && strings.HasSuffix(s, " == nil)")
			})
		}},
		{"peerHandshake", func(g map[string]bool) bool {
			return has(g, func(s string) bool {
				return strings.HasPrefix(s, "(gemmill/p2p.peerHandshake(") && strings.HasSuffix(s, "#1 == nil)")
			})
		}},
		{"announced-key==authenticated-key-if-auth_enc", func(g map[string]bool) bool {
			// config reads are treated as stable within one call: a path that takes the false edge of the
			// auth_enc test skipped the comparison legitimately
			return has(g, func(s string) bool {
				return strings.HasPrefix(s, "!github.com/spf13/viper.(*Viper).GetBool(a0.config,")
			}) ||
				has(g, func(s string) bool {
					return strings.Contains(s, "#0.PubKey.Equals(") && strings.Contains(s, ".RemotePubKey(") && !strings.HasPrefix(s, "!")
				})
		}},
		{"not-self", func(g map[string]bool) bool {
			return has(g, func(s string) bool {
				return strings.HasPrefix(s, "!") && strings.Contains(s, "#0.PubKey.Equals(a0.nodeInfo.PubKey)")
			})
		}},
		{"exchangeData", func(g map[string]bool) bool {
			return has(g, func(s string) bool {
				return strings.HasPrefix(s, "(gemmill/p2p.exchangeData(") && strings.HasSuffix(s, " == nil)")
			})
		}},
	}
	for _, gt := range gates {
		ok, why := everyPath(f, add, gt.pred)
		c.R.Ob(rule, "Add⊣"+gt.name, ok, c.Pos(add), fname(f), "a path reaches peers.Add without passing this gate; "+why)
	}
	// refuse-list and pubkey filters are given the authenticated key
	for _, n := range []string{"FilterConnByRefuselist", "FilterConnByPubKey"} {
		for _, ci := range f.CallsTo(cfgx.Named(swT + "." + n)) {
			c.R.Ob(rule, n+":arg=RemotePubKey()", strings.HasSuffix(callArg(ci, 1), ".RemotePubKey()") || strings.Contains(callArg(ci, 1), "RemotePubKey("), c.Pos(ci), fname(f), "filter must be applied to the key that signed the handshake challenge, got "+shorten(callArg(ci, 1)))
		}
	}
	// every error return closed the connection
	for _, r := range f.Returns() {
		vals := f.ReturnValues(r)
		if cfgx.IsNilConst(vals[1]) {
			continue
		}
		closed := false
		for _, ci := range f.Calls() {
			n := cfgx.CalleeName(ci)
			if (strings.HasSuffix(n, ".Close") || strings.HasSuffix(n, ".Stop")) && f.BlockOf(ci) == f.BlockOf(r) {
				closed = true
			}
		}
		c.R.Ob(rule, "reject-path-closes-connection", closed, c.Pos(r), fname(f), "a rejected connection must be closed")
	}
	for _, s := range c.AllCalls(func(n string) bool { return n == "iface:gemmill/p2p.IPeerSet.Add" || n == "gemmill/p2p.(*PeerSet).Add" }) {
		n := core.Short(fname(s.Fn))
		c.R.Ob(rule, "peers.Add-caller:"+n, n == swT+".AddPeerWithConnection", c.Pos(s.Call), fname(s.Fn), "peers may be added only by AddPeerWithConnection")
	}
	if g := c.Anchor(rule, "gemmill/p2p.peerHandshake"); g != nil {
		ca := g.CallsTo(cfgx.Named(swT + ".AuthByCA"))
		ok := len(ca) == 1
		if ok {
			for _, r := range nilErrReturns(g) {
				if !g.HasGuard(r, cfgx.Equals("("+cfgx.Expr(ca[0].(*ssa.Call))+" == nil)")) {
					ok = false
				}
			}
		}
		c.R.Ob(rule, "peerHandshake:success⊣AuthByCA-ok", ok, c.P.Pos(g.F.Pos()), fname(g), "the node handshake must fail when the certificate-authority check fails")
	}
}

func c20R2(c *Ctx) {
	rule := c.R.Rule("R2", "live authority set (belief contradiction): a function that takes a **T and returns a closure must dereference the **T inside the closure — authByCA captures ppValidators itself, not a *ValidatorSet read when the filter was built; the refuse-list filter queries the list when it runs", 2)
	f := c.Anchor(rule, "gemmill.authByCA")
	if f != nil {
		n := 0
		for _, b := range f.F.Blocks {
			for _, ins := range b.Instrs {
				mc, ok := ins.(*ssa.MakeClosure)
				if !ok {
					continue
				}
				n++
				capturesPP, capturesSnap := false, ""
				for i, fv := range mc.Fn.(*ssa.Function).FreeVars {
					bnd := mc.Bindings[i]
					bt := fv.Type()
					if strings.HasSuffix(cfgx.Expr(bnd), "a1") || strings.HasSuffix(cfgx.AddrExpr(bnd), "ppValidators") {
						capturesPP = true
					}
					// a captured *ValidatorSet (or pointer to a local holding one) is a snapshot
					if strings.Contains(types.TypeString(bt, nil), "ValidatorSet") && !strings.Contains(types.TypeString(bt, nil), "***") {
						if strings.Count(types.TypeString(bt, nil), "*") <= 2 && fv.Name() != "ppValidators" {
							capturesSnap = fv.Name()
						}
					}
				}
				c.R.Ob(rule, "authByCA:closure-captures-**validators", capturesPP && capturesSnap == "", c.Pos(mc), fname(f),
					"the CA filter captured a snapshot ("+capturesSnap+") of the validator set taken when the node was assembled: validators added or removed later (the reason a ** is passed) are invisible to admission")
			}
		}
		if n == 0 {
			c.R.Undecided(rule, "authByCA:closure", c.P.Pos(f.F.Pos()), fname(f), "no closure returned")
		}
		// nothing is read through the ** when the filter is built: every such read is a snapshot
		var early ssa.Instruction
		for _, b := range f.F.Blocks {
			for _, ins := range b.Instrs {
				if ld, ok := ins.(*ssa.UnOp); ok && ld.Op == token.MUL && f.Live(ins) {
					if exprOf(ld.X) == "a1" && ld.X.Type().String() == f.F.Params[1].Type().String() {
						early = ins
					}
				}
			}
		}
		pos := c.P.Pos(f.F.Pos())
		if early != nil {
			pos = c.Pos(early)
		}
		c.R.Ob(rule, "authByCA:no-read-of-**validators-at-construction", early == nil, pos, fname(f), "the validator set (and anything derived from it, e.g. the CA keys) read while the filter is built is a snapshot of node start-up; authorities added or removed by the chain later are not seen")
		// call site passes the address of the live field
		for _, s := range c.AllCalls(cfgx.Named("gemmill.authByCA")) {
			c.R.Ob(rule, "authByCA:arg=&stateM.Validators", strings.HasSuffix(cfgx.AddrExpr(s.Call.Common().Args[1]), ".Validators"), c.Pos(s.Call), fname(s.Fn), "got "+cfgx.AddrExpr(s.Call.Common().Args[1]))
		}
	}
	if g := c.Anchor(rule, "gemmill.refuseListFilter"); g != nil {
		ok := false
		for _, an := range g.F.AnonFuncs {
			af := c.Fn(an)
			for _, ci := range af.Calls() {
				if strings.Contains(cfgx.CalleeName(ci), "refuse_list.(*RefuseList).") {
					ok = true
				}
			}
		}
		c.R.Ob(rule, "refuseListFilter:queries-at-call-time", ok, c.P.Pos(g.F.Pos()), fname(g), "the refuse list must be consulted when a peer connects")
	} else {
		c.R.Note("refuseListFilter anchor not found; skipped")
	}
}

func c20R3(c *Ctx) {
	rule := c.R.Rule("R3", "nonce discipline: writeEncode: secretbox.Seal(.., sc.sendNonce, ..) is followed by incr2Nonce(sc.sendNonce) before the frame is returned; readDecode: the success return is edge-dominated by Open's ok and dominated by incr2Nonce(sc.recvNonce), the failure return carries an error and does not increment; incr2Nonce = incrNonce twice; genNonces flips the low bit for the second nonce", 7)
	if f := c.Anchor(rule, scT+".writeEncode"); f != nil {
		seal := firstCall(f, "golang.org/x/crypto/nacl/secretbox.Seal")
		inc := firstCall(f, "gemmill/p2p.incr2Nonce")
		ok := seal != nil && inc != nil && callArg(seal, 2) == "a0.sendNonce" && callArg(inc, 0) == "a0.sendNonce" && f.Dominates(seal, inc)
		if ok {
			for _, r := range f.Returns() {
				if !f.Dominates(inc, r) {
					ok = false
				}
			}
		}
		c.R.Ob(rule, "writeEncode:Seal(sendNonce)≺incr2Nonce(sendNonce)≺return", ok, c.P.Pos(f.F.Pos()), fname(f), "a frame sealed under a nonce that is not advanced by two lets an earlier/own frame decrypt in its place")
		c.R.Ob(rule, "writeEncode:key=shrSecret", seal != nil && callArg(seal, 3) == "a0.shrSecret", c.P.Pos(f.F.Pos()), fname(f), "frames are sealed under the shared secret")
	}
	if f := c.Anchor(rule, scT+".readDecode"); f != nil {
		open := firstCall(f, "golang.org/x/crypto/nacl/secretbox.Open")
		inc := firstCall(f, "gemmill/p2p.incr2Nonce")
		ok := open != nil && inc != nil && callArg(open, 2) == "a0.recvNonce" && callArg(inc, 0) == "a0.recvNonce"
		c.R.Ob(rule, "readDecode:Open(recvNonce)+incr2Nonce(recvNonce)", ok, c.P.Pos(f.F.Pos()), fname(f), "frames are opened under the receive nonce, which is then advanced")
		if ok {
			okv := cfgx.Expr(open.(*ssa.Call)) + "#1"
			for _, r := range f.Returns() {
				vals := f.ReturnValues(r)
				if cfgx.IsNilConst(vals[1]) {
					c.R.Ob(rule, "readDecode:success⊣opened-and-incremented", f.HasGuard(r, cfgx.Equals(okv)) && f.Dominates(inc, r), c.Pos(r), fname(f), "a frame is accepted only if it authenticated, and the nonce advanced; "+guardsText(f, r))
				} else if f.Dominates(open, r) {
					c.R.Ob(rule, "readDecode:failure-no-increment", !f.Reaches(inc, r) && f.HasGuard(r, cfgx.Equals("!"+okv)), c.Pos(r), fname(f), "a frame that fails authentication must end the read with an error")
				}
			}
		}
	}
	if f := c.Anchor(rule, "gemmill/p2p.incr2Nonce"); f != nil {
		c.R.Ob(rule, "incr2Nonce:two-steps", len(f.CallsTo(cfgx.Named("gemmill/p2p.incrNonce"))) == 2, c.P.Pos(f.F.Pos()), fname(f), "each direction uses every second nonce (the two directions interleave)")
	}
	if f := c.Anchor(rule, "gemmill/p2p.genNonces"); f != nil {
		ok := false
		for _, b := range f.F.Blocks {
			for _, ins := range b.Instrs {
				if st, isSt := ins.(*ssa.Store); isSt {
					if bo, isBo := st.Val.(*ssa.BinOp); isBo && bo.Op.String() == "^" && cfgx.Expr(bo.Y) == "1" {
						ok = true
					}
				}
			}
		}
		c.R.Ob(rule, "genNonces:directions-differ-in-low-bit", ok, c.P.Pos(f.F.Pos()), fname(f), "send and receive nonces must differ")
	}
	// the nonces are touched nowhere else
	for _, fn := range c.P.RepoFuncs() {
		g := c.Fn(fn)
		for _, ci := range g.CallsTo(cfgx.Named("gemmill/p2p.incr2Nonce", "gemmill/p2p.incrNonce")) {
			n := core.Short(fname(g))
			ok := n == scT+".writeEncode" || n == scT+".readDecode" || n == "gemmill/p2p.incr2Nonce"
			c.R.Ob(rule, "nonce-increment-in:"+n, ok, c.Pos(ci), fname(g), "nonces advance only with a sealed / opened frame")
		}
	}
}

// R4: io.Reader contract -------------------------------------------------------------------------
func c20R4(c *Ctx) {
	readerContractRule(c, "R4")
}

func readerContractRule(c *Ctx, id string) {
	rule := c.R.Rule(id, "io.Reader contract: in every method Read(p []byte) (n int, err error) of gemmill/p2p and gemmill/types, a return that is dominated by a copy(p, ...) returns that copy's result as n", 2)
	n := 0
	for _, fn := range c.P.RepoFuncs() {
		name := core.Short(core.FuncName(fn))
		if !strings.HasSuffix(name, ").Read") || !(strings.HasPrefix(name, "gemmill/p2p.") || strings.HasPrefix(name, "gemmill/types.")) {
			continue
		}
		sig := fn.Signature
		if sig.Params().Len() != 1 || sig.Results().Len() != 2 {
			continue
		}
		f := c.Fn(fn)
		for _, ci := range f.CallsTo(cfgx.Named("builtin:copy")) {
			if callArg(ci, 0) != "a1" {
				continue
			}
			for _, r := range f.Returns() {
				if !f.Dominates(ci, r) {
					continue
				}
				n++
				got := cfgx.Expr(f.ReturnValues(r)[0])
				c.R.Ob(rule, name+":returns-copied-count", got == cfgx.Expr(ci.(*ssa.Call)), c.Pos(r), fname(f),
					"bytes were copied into the caller's buffer but Read reports "+shorten(got)+": io.ReadFull then re-reads into the same place and the copied bytes are lost from the stream")
			}
		}
	}
	if n == 0 {
		c.R.Undecided(rule, "Read-methods", "-", "", "no copy-based Read found")
	}
}

func c20R5(c *Ctx) {
	rule := c.R.Rule("R5", "identity after verification: MakeSecretConnection stores sc.remPubKey only under remPubKey.VerifyBytes(challenge, remSignature)==true, with remPubKey/remSignature taken from the peer's auth message and the challenge derived from both ephemeral public keys; RemotePubKey returns that field", 4)
	f := c.Anchor(rule, "gemmill/p2p.MakeSecretConnection")
	if f == nil {
		return
	}
	sts := f.FieldStores("gemmill/p2p.SecretConnection", "remPubKey")
	if len(sts) != 1 {
		c.R.Undecided(rule, "remPubKey:store", c.P.Pos(f.F.Pos()), fname(f), "expected one store")
	}
	for _, st := range sts {
		v := cfgx.Expr(st.Val)
		ok := f.HasGuard(st, func(g string) bool {
			return strings.HasPrefix(g, "gemmill/p2p.shareAuthSignature(") && strings.Contains(g, ".Key.VerifyBytes(gemmill/p2p.genChallenge(") && strings.Contains(g, ".Sig)") && !strings.HasPrefix(g, "!")
		})
		c.R.Ob(rule, "remPubKey-store⊣challenge-verified", ok, c.Pos(st), fname(f), "the authenticated identity must be the key whose signature over the challenge verified")
		c.R.Ob(rule, "remPubKey-store:value=authSigMsg.Key", strings.HasPrefix(v, "gemmill/p2p.shareAuthSignature(") && strings.HasSuffix(v, ".Key"), c.Pos(st), fname(f), "stored key "+shorten(v))
	}
	for _, ci := range f.CallsTo(cfgx.Named("gemmill/p2p.genChallenge")) {
		a0, a1 := callArg(ci, 0), callArg(ci, 1)
		ok := strings.HasPrefix(a0, "gemmill/p2p.sort32(gemmill/p2p.genEphKeys()#0,gemmill/p2p.shareEphPubKey(a0,") && strings.HasPrefix(a1, "gemmill/p2p.sort32(")
		c.R.Ob(rule, "challenge:from-both-ephemeral-keys", ok, c.Pos(ci), fname(f), "challenge must bind the local and the remote ephemeral key")
	}
	if g := c.Anchor(rule, scT+".RemotePubKey"); g != nil {
		ok := false
		for _, r := range g.Returns() {
			ok = cfgx.Expr(g.ReturnValues(r)[0]) == "a0.remPubKey"
		}
		c.R.Ob(rule, "RemotePubKey:returns-remPubKey", ok, c.P.Pos(g.F.Pos()), fname(g), "accessor returns the authenticated key")
	}
	for _, fn := range c.P.RepoFuncs() {
		g := c.Fn(fn)
		for _, st := range g.FieldStores("gemmill/p2p.SecretConnection", "remPubKey") {
			n := core.Short(fname(g))
			c.R.Ob(rule, "remPubKey-writer:"+n, n == "gemmill/p2p.MakeSecretConnection", c.Pos(st), fname(g), "identity is assigned only by the handshake")
		}
	}
}

func c20R6(c *Ctx) {
	rule := c.R.Rule("R6", "frame bounds: SecretConnection.Read slices the frame only under chunkLength<=dataMaxSize; Channel.recvMsgPacket appends only under len(recving)+len(packet.Bytes)<=RecvMessageCapacity", 2)
	if f := c.Anchor(rule, scT+".Read"); f != nil {
		n := 0
		for _, b := range f.F.Blocks {
			for _, ins := range b.Instrs {
				sl, ok := ins.(*ssa.Slice)
				if !ok || !f.Live(ins) || sl.High == nil || !strings.Contains(cfgx.Expr(sl.High), "Uint16(") {
					continue
				}
				n++
				c.R.Ob(rule, "Read:slice⊣chunkLength<=dataMaxSize", f.HasGuard(ins, func(g string) bool { return strings.Contains(g, "Uint16(") && strings.HasSuffix(g, " <= 1024)") }), c.Pos(ins), fname(f), guardsText(f, ins))
			}
		}
		if n == 0 {
			c.R.Undecided(rule, "Read:slice", c.P.Pos(f.F.Pos()), fname(f), "chunk slice not found")
		}
	}
	if f := c.Anchor(rule, "gemmill/p2p.(*Channel).recvMsgPacket"); f != nil {
		for _, ci := range f.CallsTo(cfgx.Named("builtin:append")) {
			c.R.Ob(rule, "recvMsgPacket:append⊣capacity", f.HasGuard(ci, cfgx.Equals("(a0.desc.RecvMessageCapacity >= (len(a0.recving) + len(a1.Bytes)))")), c.Pos(ci), fname(f), guardsText(f, ci))
		}
	}
}

func c20R7(c *Ctx) {
	rule := c.R.Rule("R7", "packetisation: nextMsgPacket sets EOF=1 and clears `sending` exactly under len(sending)<=maxMsgPacketPayloadSize, else EOF=0 and advances by one payload; recvMsgPacket returns the reassembled buffer exactly under packet.EOF==1", 4)
	if f := c.Anchor(rule, "gemmill/p2p.(*Channel).nextMsgPacket"); f != nil {
		okNil, okAdv := false, false
		for _, st := range f.FieldStores("gemmill/p2p.Channel", "sending") {
			if cfgx.IsNilConst(st.Val) {
				okNil = f.HasGuard(st, cfgx.Equals("(len(a0.sending) <= 1024)"))
			} else {
				okAdv = f.HasGuard(st, cfgx.Equals("(len(a0.sending) > 1024)")) && cfgx.Expr(st.Val) == "a0.sending[gemmill/modules/go-common.MinInt(1024,len(a0.sending)):]"
			}
		}
		c.R.Ob(rule, "nextMsgPacket:last-packet-iff-fits", okNil, c.P.Pos(f.F.Pos()), fname(f), "a message whose remainder is exactly one payload must be closed by this packet")
		c.R.Ob(rule, "nextMsgPacket:advance-by-payload", okAdv, c.P.Pos(f.F.Pos()), fname(f), "otherwise the remainder advances by one payload")
		eof1, eof0 := false, false
		for _, st := range f.Stores(func(a string) bool { return strings.HasSuffix(a, ".EOF") }) {
			v := cfgx.Expr(st.Val)
			if v == "1" && f.HasGuard(st, cfgx.Equals("(len(a0.sending) <= 1024)")) {
				eof1 = true
			}
			if v == "0" && f.HasGuard(st, cfgx.Equals("(len(a0.sending) > 1024)")) {
				eof0 = true
			}
		}
		c.R.Ob(rule, "nextMsgPacket:EOF-flag", eof1 && eof0, c.P.Pos(f.F.Pos()), fname(f), "EOF=1 on the closing packet, 0 otherwise")
	}
	if f := c.Anchor(rule, "gemmill/p2p.(*Channel).recvMsgPacket"); f != nil {
		ok := true
		n := 0
		for _, r := range f.Returns() {
			vals := f.ReturnValues(r)
			if cfgx.IsNilConst(vals[0]) {
				continue
			}
			n++
			if !f.HasGuard(r, cfgx.Equals("(a1.EOF == 1)")) {
				ok = false
			}
		}
		c.R.Ob(rule, "recvMsgPacket:deliver-iff-EOF", ok && n == 1, c.P.Pos(f.F.Pos()), fname(f), "a message is delivered exactly when its closing packet arrives")
	}
}

// c20R8: the send loop's "exhausted" signal.
func c20R8(c *Ctx) {
	rule := c.R.Rule("R8", "multi-channel delivery: MConnection.sendMsgPacket reports `exhausted` (true) only when no channel had pending data (least == nil) or the write failed; after a packet was written it reports false, so sendRoutine comes back for the other channels — a value computed from the served channel alone strands the messages queued on the others", 3)
	f := c.Anchor(rule, "gemmill/p2p.(*MConnection).sendMsgPacket")
	if f == nil {
		return
	}
	nTrue, nFalse := 0, 0
	for _, r := range f.Returns() {
		v := f.ReturnValues(r)[0]
		k, isConst := v.(*ssa.Const)
		if !isConst || k.Value == nil {
			c.R.Ob(rule, "return:constant", false, c.Pos(r), fname(f), "returns a computed value "+shorten(exprOf(v)))
			continue
		}
		if k.Value.ExactString() == "true" {
			nTrue++
			ok := f.HasGuard(r, func(g string) bool {
				return strings.HasSuffix(g, " == nil)") && strings.HasPrefix(g, "(phi(") || strings.Contains(g, "writeMsgPacketTo(") && strings.HasSuffix(g, "#1 != nil)")
			})
			c.R.Ob(rule, "return-true⊣nothing-pending-or-write-error", ok, c.Pos(r), fname(f), shorten(guardsText(f, r)))
		} else {
			nFalse++
			ok := f.HasGuard(r, func(g string) bool {
				return strings.Contains(g, "writeMsgPacketTo(") && strings.HasSuffix(g, "#1 == nil)")
			})
			c.R.Ob(rule, "return-false⊣packet-written", ok, c.Pos(r), fname(f), shorten(guardsText(f, r)))
		}
	}
	c.R.Ob(rule, "returns", nTrue >= 2 && nFalse >= 1, c.P.Pos(f.F.Pos()), fname(f), fmt.Sprintf("%d true, %d false", nTrue, nFalse))
}
