package rules

import (
	"strings"

	"golang.org/x/tools/go/ssa"

	"annverif/cfgx"
	"annverif/core"
)

func init() {
	Registry["C17"] = c17
	Metas["C17"] = Meta{Level: "other", NeedCG: true,
		Technique: "static analysis: edge-dominance and all-paths predicates on the part-insertion effects, bound-before-allocation on the peer-supplied part count, guard discipline of the recursive Merkle proof walk, decode-only-when-complete ordering",
		Explain:   "Static analysis of gemmill/types/part_set.go, go-merkle/simple_tree.go and their use in the consensus state. Decided: (R1) the three insertion effects of PartSet.AddPart (slot store, bit set, count++) are edge-dominated by both index bounds and by the slot being empty, and on every path either verification was not requested or Proof.Verify(part.Index, total, part.Hash(), set hash) returned true; (R2) parts received from peers are always verified (verify = peerKey != \"\" in handleMsg; replay passes the logged peer key); (R3) the peer-supplied part count is bounded on both sides before NewPartSetFromHeader allocates, and only a proposal with a valid proposer signature installs a part set; (R4) computeHashFromAunts returns a hash only for 0<=index<total, returns the leaf only when no aunts are left, indexes the aunts only when non-empty, recurses on strictly smaller totals, and builds every non-leaf result from exactly one non-nil recursive walk over aunts[:len-1] and aunts[len-1] (so the number of aunts is exact: surplus aunts are rejected); SimpleProof.Verify accepts only a non-nil computed hash equal to the root; (R5) the block is decoded only from a complete set that this part completed, with the MaxBlockSize limit, and the decode error is tested before the block is used. (R6) encoder buffers are owned by the call that returns their bytes; (R7) the reassembly reader never surfaces a part's own EOF. NOT decided: second-preimage resistance of the tree, exact reassembly for all inputs.",
		Assume:    []string{"the hash function is collision resistant", "go-wire honours its limit argument (C18-R2)"},
	}
}

func c17(c *Ctx) {
	c17R1(c)
	c17R2(c)
	c17R3(c)
	c17R4(c)
	c17R5(c)
	bufferOwnershipRule(c, "R6")
	c17R7(c)
	headerEqualsRule(c, c.R.Rule("R8", "whole-header comparison: PartSet.HasHeader is PartSetHeader.Equals on the set's header, which compares Total and Hash", 2))
}

func c17R1(c *Ctx) {
	rule := c.R.Rule("R1", "AddPart: the stores parts[part.Index]=part, partsBitArray.SetIndex(part.Index) and count++ are edge-dominated by part.Index>=0, part.Index<total and parts[part.Index]==nil; every path to them has verify==false or part.Proof.Verify(part.Index, total, part.Hash(), ps.Hash())==true", 12)
	f := c.Anchor(rule, "gemmill/types.(*PartSet).AddPart")
	if f == nil {
		return
	}
	var sites []ssa.Instruction
	names := map[ssa.Instruction]string{}
	for _, st := range f.Stores(cfgx.Equals("a0.parts[a1.Index]")) {
		sites = append(sites, st)
		names[st] = "slot-store"
	}
	for _, st := range f.FieldStores("gemmill/types.PartSet", "count") {
		sites = append(sites, st)
		names[st] = "count++"
	}
	for _, ci := range f.CallsTo(cfgx.Named("gemmill/modules/go-common.(*BitArray).SetIndex")) {
		if callArg(ci, 0) == "a0.partsBitArray" {
			sites = append(sites, ci)
			names[ci] = "bit-set"
		}
	}
	if len(sites) < 3 {
		c.R.Undecided(rule, "effects", c.P.Pos(f.F.Pos()), fname(f), "expected slot store, bit set and count increment")
	}
	verify := "gemmill/modules/go-merkle.(*SimpleProof).Verify(a1.Proof,a1.Index,a0.total,gemmill/types.(*Part).Hash(a1),gemmill/types.(*PartSet).Hash(a0))"
	for _, s := range sites {
		c.requireGuards(rule, names[s], f, s, []WantGuard{
			{"index>=0", cfgx.Equals("(a1.Index >= 0)")},
			{"index<total", cfgx.Equals("(a1.Index < a0.total)")},
			{"slot-empty", cfgx.Equals("(a0.parts[a1.Index] == nil)")},
		})
		// PartSet.Hash() is a nil-tolerant getter of ps.hash; the receiver is non-nil here (its mutex was taken)
		verifyField := strings.Replace(verify, "gemmill/types.(*PartSet).Hash(a0)", "a0.hash", 1)
		ok, why := everyPath(f, s, func(g map[string]bool) bool { return g["!a2"] || g[verify] || g[verifyField] })
		c.R.Ob(rule, names[s]+":verified-or-not-requested", ok, c.Pos(s), fname(f), "a part reaches the set without its Merkle proof having verified against (index, total, part hash, set hash); "+why)
	}
	// bit index argument
	for _, ci := range f.CallsTo(cfgx.Named("gemmill/modules/go-common.(*BitArray).SetIndex")) {
		c.R.Ob(rule, "bit-set:index=part.Index", callArg(ci, 1) == "a1.Index" && callArg(ci, 2) == "true", c.Pos(ci), fname(f), "bit array must record exactly the inserted index")
	}
	// the mutex is held
	lk := firstCall(f, "sync.(*Mutex).Lock")
	ok := lk != nil
	for _, s := range sites {
		if lk == nil || !f.Dominates(lk, s) {
			ok = false
		}
	}
	c.R.Ob(rule, "AddPart:mtx-held", ok, c.P.Pos(f.F.Pos()), fname(f), "insertion runs under ps.mtx")
	// who writes parts / count elsewhere
	for _, fn := range c.P.RepoFuncs() {
		g := c.Fn(fn)
		for _, st := range g.FieldStores("gemmill/types.PartSet", "count") {
			n := core.Short(fname(g))
			okw := n == "gemmill/types.(*PartSet).AddPart" || strings.HasPrefix(n, "gemmill/types.NewPartSetFrom")
			c.R.Ob(rule, "count-writer:"+n, okw, c.Pos(st), fname(g), "PartSet.count may change only in AddPart and the constructors")
		}
	}
}

func c17R2(c *Ctx) {
	rule := c.R.Rule("R2", "peers are always verified: handleMsg calls addProposalBlockPart(msg.Height, msg.Part, peerKey != \"\"); addProposalBlockPart forwards its verify flag unchanged to AddPart on cs.ProposalBlockParts; AddPart has no other caller on a set built from a header", 3)
	if f := c.Anchor(rule, csT+".handleMsg"); f != nil {
		n := 0
		for _, ci := range f.CallsTo(cfgx.Named(csT + ".addProposalBlockPart")) {
			n++
			c.R.Ob(rule, "handleMsg:verify=(peerKey!=\"\")", callArg(ci, 3) == `(a1.PeerKey != "")`, c.Pos(ci), fname(f), "verify flag is "+callArg(ci, 3))
			c.R.Ob(rule, "handleMsg:part=msg.Part", strings.HasSuffix(callArg(ci, 2), ".Part") && strings.HasSuffix(callArg(ci, 1), ".Height"), c.Pos(ci), fname(f), "part/height come from the message")
		}
		if n == 0 {
			c.R.Undecided(rule, "handleMsg:site", c.P.Pos(f.F.Pos()), fname(f), "no addProposalBlockPart call")
		}
	}
	if f := c.Anchor(rule, csT+".addProposalBlockPart"); f != nil {
		ok := false
		for _, ci := range f.CallsTo(cfgx.Named("gemmill/types.(*PartSet).AddPart")) {
			ok = callArg(ci, 0) == "a0.RoundState.ProposalBlockParts" && callArg(ci, 1) == "a2" && callArg(ci, 2) == "a3"
		}
		c.R.Ob(rule, "addProposalBlockPart:forwards-verify", ok, c.P.Pos(f.F.Pos()), fname(f), "AddPart(part, verify) on the proposal's part set")
	}
	for _, s := range c.AllCalls(cfgx.Named("gemmill/types.(*PartSet).AddPart")) {
		n := core.Short(fname(s.Fn))
		okc := n == csT+".addProposalBlockPart" || strings.HasPrefix(n, "gemmill/consensus/raft.") || strings.HasPrefix(n, "gemmill/types.")
		c.R.Ob(rule, "AddPart-caller:"+n, okc, c.Pos(s.Call), fname(s.Fn), "parts enter a header-built set only through addProposalBlockPart")
	}
}

func c17R3(c *Ctx) {
	rule := c.R.Rule("R3", "header bounded before allocation: in defaultSetProposal the call NewPartSetFromHeader(proposal.BlockPartsHeader) is edge-dominated by Total>=0, an upper bound on Total, and the proposer-signature check; NewPartSetFromHeader sizes both allocations from header.Total", 4)
	f := c.Anchor(rule, csT+".defaultSetProposal")
	if f == nil {
		return
	}
	cs := f.CallsTo(cfgx.Named("gemmill/types.NewPartSetFromHeader"))
	if len(cs) != 1 {
		c.R.Undecided(rule, "site", c.P.Pos(f.F.Pos()), fname(f), "expected one NewPartSetFromHeader call")
		return
	}
	ci := cs[0]
	c.R.Ob(rule, "alloc:header=proposal.BlockPartsHeader", callArg(ci, 0) == "a1.BlockPartsHeader", c.Pos(ci), fname(f), "got "+callArg(ci, 0))
	c.requireGuards(rule, "alloc", f, ci, []WantGuard{
		{"total>=0", func(g string) bool {
			return g == "(a1.BlockPartsHeader.Total >= 0)" || g == "(a1.BlockPartsHeader.Total > 0)" || g == "(a1.BlockPartsHeader.Total > -1)"
		}},
		{"total<=bound", func(g string) bool {
			return strings.HasPrefix(g, "(a1.BlockPartsHeader.Total <= ") || strings.HasPrefix(g, "(a1.BlockPartsHeader.Total < ")
		}},
		{"proposer-signature", cfgx.Equals("gemmill/types.(*ValidatorSet).Proposer(a0.RoundState.Validators).PubKey.VerifyBytes(gemmill/types.SignBytes(a0.state.ChainID,a1),a1.Signature)")},
		{"same-height", cfgx.Equals("(a1.Height == a0.RoundState.Height)")},
		{"same-round", cfgx.Equals("(a1.Round == a0.RoundState.Round)")},
	})
}

func c17R4(c *Ctx) {
	rule := c.R.Rule("R4", "proof walk: computeHashFromAunts returns non-nil only under 0<=index<total; the leaf hash only under total==1 and len(aunts)==0; aunts[len-1] is used only under len(aunts)!=0; recursion is on (numLeft) and (total-numLeft) with one aunt fewer; SimpleProof.Verify returns true only under computed!=nil and bytes.Equal(computed, root)", 8)
	f := c.Anchor(rule, "gemmill/modules/go-merkle.computeHashFromAunts")
	if f != nil {
		n := 0
		for _, r := range f.Returns() {
			v := f.ReturnValues(r)[0]
			if cfgx.IsNilConst(v) {
				continue
			}
			n++
			c.requireGuards(rule, "non-nil-return:"+shorten(cfgx.Expr(v)), f, r, []WantGuard{
				{"index>=0", cfgx.Equals("(a0 >= 0)")},
				{"index<total", cfgx.Equals("(a0 < a1)")},
			})
			if cfgx.Expr(v) == "a2" {
				c.requireGuards(rule, "leaf-return", f, r, []WantGuard{
					{"total==1", cfgx.Equals("(a1 == 1)")},
					{"no-aunts-left", cfgx.Equals("(len(a3) == 0)")},
				})
			} else {
				// exact aunt count by structural induction: the only place that accepts "no aunts left"
				// is the leaf return, so every other hash must be built from a recursive walk over the
				// remaining aunts (non-nil) and the last aunt; a hash assembled without the recursion
				// accepts proofs with surplus aunts
				ok := false
				why := "returns " + shorten(cfgx.Expr(v))
				if call, isCall := v.(*ssa.Call); isCall && len(call.Call.Args) == 2 {
					if cal := call.Call.StaticCallee(); cal != nil && cal.Name() == "SimpleHashFromTwoHashes" {
						nrec, naunt := 0, 0
						for _, a := range call.Call.Args {
							e := cfgx.Expr(a)
							switch {
							case strings.HasPrefix(e, "gemmill/modules/go-merkle.computeHashFromAunts(") && strings.HasSuffix(e, ",a2,a3[:(len(a3) - 1)])"):
								if f.HasGuard(r, cfgx.Equals("("+e+" != nil)")) {
									nrec++
								}
							case e == "a3[(len(a3) - 1)]":
								naunt++
							}
						}
						ok = nrec == 1 && naunt == 1
					}
				}
				c.R.Ob(rule, "inner-return:hash(recursive-walk,last-aunt):"+shorten(cfgx.Expr(v)), ok, c.Pos(r), fname(f), "a non-leaf result must be SimpleHashFromTwoHashes of the (non-nil) recursive walk over aunts[:len-1] and aunts[len-1]; "+why)
			}
		}
		if n < 3 {
			c.R.Undecided(rule, "returns", c.P.Pos(f.F.Pos()), fname(f), "expected leaf, left and right returns")
		}
		for _, b := range f.F.Blocks {
			for _, ins := range b.Instrs {
				if ia, ok := ins.(*ssa.IndexAddr); ok && f.Live(ins) && cfgx.Expr(ia.X) == "a3" {
					c.R.Ob(rule, "aunt-index⊣non-empty", f.HasGuard(ins, cfgx.Equals("(len(a3) != 0)")) && cfgx.Expr(ia.Index) == "(len(a3) - 1)", c.Pos(ins), fname(f), "aunts indexed at "+cfgx.Expr(ia.Index)+"; "+guardsText(f, ins))
				}
			}
		}
		rec := f.CallsTo(cfgx.Named("gemmill/modules/go-merkle.computeHashFromAunts"))
		okRec := len(rec) == 2
		for _, ci := range rec {
			a1 := callArg(ci, 1)
			if !(a1 == "((a1 + 1) / 2)" || a1 == "(a1 - ((a1 + 1) / 2))") || callArg(ci, 3) != "a3[:(len(a3) - 1)]" || callArg(ci, 2) != "a2" {
				okRec = false
			}
			if !f.HasGuard(ci, cfgx.Equals("(a1 != 1)")) || !f.HasGuard(ci, cfgx.Equals("(a1 != 0)")) {
				okRec = false
			}
		}
		c.R.Ob(rule, "recursion:strictly-smaller-total-one-aunt-fewer", okRec, c.P.Pos(f.F.Pos()), fname(f), "left: (index, numLeft), right: (index-numLeft, total-numLeft), aunts[:len-1], only for total>=2")
	}
	if g := c.Anchor(rule, "gemmill/modules/go-merkle.(*SimpleProof).Verify"); g != nil {
		for _, r := range g.Returns() {
			v := g.ReturnValues(r)[0]
			ch := "gemmill/modules/go-merkle.computeHashFromAunts(a1,a2,a3,a0.Aunts)"
			if cst, ok := v.(*ssa.Const); ok && cst.Value != nil {
				if cst.Value.ExactString() == "true" {
					c.requireGuards(rule, "Verify:true", g, r, []WantGuard{
						{"computed!=nil", cfgx.Equals("(" + ch + " != nil)")},
						{"equals-root", cfgx.Equals("bytes.Equal(" + ch + ",a4)")},
					})
				}
				continue
			}
			// a computed result: it may only be the comparison of the walked hash with the root
			okv := exprOf(v) == "bytes.Equal("+ch+",a4)" && g.HasGuard(r, cfgx.Equals("("+ch+" != nil)"))
			c.R.Ob(rule, "Verify:computed-result-is-root-comparison", okv, c.Pos(r), fname(g), "Verify may answer true only for the hash computed by walking the aunts with (index, total); it returns "+shorten(exprOf(v)))
		}
	}
}

func c17R5(c *Ctx) {
	rule := c.R.Rule("R5", "decode only when complete: in addProposalBlockPart wire.ReadBinary(&Block{}, ProposalBlockParts.GetReader(), MaxBlockSize, ...) is edge-dominated by AddPart's error being nil, added==true and IsComplete(); the transitions that use the decoded block (enterPrevote / tryFinalizeCommit) are edge-dominated by the decode error being nil; GetReader sanity-panics unless complete", 6)
	f := c.Anchor(rule, csT+".addProposalBlockPart")
	if f != nil {
		ap := "gemmill/types.(*PartSet).AddPart(a0.RoundState.ProposalBlockParts,a2,a3)"
		rbs := f.CallsTo(cfgx.Named("gemmill/go-wire.ReadBinary"))
		if len(rbs) != 1 {
			c.R.Undecided(rule, "decode:site", c.P.Pos(f.F.Pos()), fname(f), "expected one block decode")
		}
		for _, rb := range rbs {
			c.requireGuards(rule, "decode", f, rb, []WantGuard{
				{"AddPart-ok", cfgx.Equals("(" + ap + "#1 == nil)")},
				{"added", cfgx.Equals(ap + "#0")},
				{"complete", cfgx.Equals("gemmill/types.(*PartSet).IsComplete(a0.RoundState.ProposalBlockParts)")},
				{"same-height", cfgx.Equals("(a0.RoundState.Height == a1)")},
			})
			c.R.Ob(rule, "decode:limit=MaxBlockSize", callArg(rb, 2) == "22020096", c.Pos(rb), fname(f), "decode limit "+callArg(rb, 2))
			c.R.Ob(rule, "decode:reader=ProposalBlockParts", callArg(rb, 1) == "gemmill/types.(*PartSet).GetReader(a0.RoundState.ProposalBlockParts)", c.Pos(rb), fname(f), "reader "+shorten(callArg(rb, 1)))
			for _, ci := range f.CallsTo(cfgx.Named(csT+".enterPrevote", csT+".tryFinalizeCommit")) {
				if !f.Dominates(rb, ci) {
					continue
				}
				ok := f.HasGuard(ci, func(g string) bool { return g == "(local:err == nil)" })
				c.R.Ob(rule, "use:"+shortCallee(ci)+"⊣decode-ok", ok, c.Pos(ci), fname(f), "the decoded block is acted upon although the decode error was not tested (a proposer whose parts do not decode leaves a half-filled block); "+guardsText(f, ci))
			}
		}
	}
	if g := c.Anchor(rule, "gemmill/types.(*PartSet).GetReader"); g != nil {
		for _, r := range g.Returns() {
			c.R.Ob(rule, "GetReader⊣complete", g.HasGuard(r, cfgx.Equals("gemmill/types.(*PartSet).IsComplete(a0)")), c.Pos(r), fname(g), "a reader may be handed out only for a complete set")
		}
	}
	if g := c.Anchor(rule, "gemmill/types.(*PartSet).IsComplete"); g != nil {
		ok := false
		for _, r := range g.Returns() {
			if cfgx.Expr(g.ReturnValues(r)[0]) == "(a0.count == a0.total)" {
				ok = true
			}
		}
		c.R.Ob(rule, "IsComplete:count==total", ok, c.P.Pos(g.F.Pos()), fname(g), "completeness is count == total")
	}
}

// c17R7: reassembly reads across part boundaries without surfacing a part's own EOF.
func c17R7(c *Ctx) {
	rule := c.R.Rule("R7", "reassembly reader: in PartSetReader.Read the underlying bytes.Reader is read only under a guard showing it still holds data for the request (Len() >= len(p), or Len() > 0), so an exhausted or empty part never surfaces io.EOF; io.EOF itself is returned only under psr.i >= len(psr.parts)", 2)
	f := c.Anchor(rule, "gemmill/types.(*PartSetReader).Read")
	if f == nil {
		return
	}
	ln := "bytes.(*Reader).Len(a0.reader)"
	n := 0
	for _, ci := range f.CallsTo(cfgx.Named("bytes.(*Reader).Read")) {
		n++
		ok := f.HasGuard(ci.(ssa.Instruction), func(g string) bool {
			return g == "("+ln+" >= len(a1))" || g == "("+ln+" > 0)" || g == "("+ln+" != 0)"
		})
		c.R.Ob(rule, "reader.Read⊣reader-holds-data", ok, c.Pos(ci), fname(f), "reading an exhausted (or empty) part's reader returns io.EOF in the middle of the block; "+shorten(guardsText(f, ci.(ssa.Instruction))))
	}
	if n == 0 {
		c.R.Undecided(rule, "reader.Read-site", c.P.Pos(f.F.Pos()), fname(f), "no read of the part reader")
	}
	for _, r := range f.Returns() {
		vs := f.ReturnValues(r)
		if len(vs) == 2 && strings.HasSuffix(exprOf(vs[1]), "io.EOF") {
			c.R.Ob(rule, "EOF⊣all-parts-consumed", f.HasGuard(r, eqs("(a0.i >= len(a0.parts))")), c.Pos(r), fname(f), "io.EOF only after the last part")
		}
	}
}
