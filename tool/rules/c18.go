package rules

import (
	"fmt"
	"go/ast"
	"go/types"
	"reflect"
	"sort"
	"strings"

	"golang.org/x/tools/go/packages"
	"golang.org/x/tools/go/ssa"

	"annverif/cfgx"
	"annverif/core"
)

func init() {
	Registry["C18"] = c18
	Metas["C18"] = Meta{Level: "other", NeedCG: true, Ref: true,
		Technique: "static analysis: reader/writer switch-table symmetry over the type-checked AST, bound-before-allocation on every decoder allocation, field-coverage and branch-freedom of the canonical sign-bytes constructors, JSON-key distinctness tables, registration tables; RLP by translation validation against go-ethereum v1.8.27",
		Explain:   "Round-trip equality for all values is a statement about run-time values and is (R6) decoded slice chunks are fresh per iteration; (R7) encoder buffers are owned by the call; (R8) the varint readers reject nothing on the decoded magnitude. NOT decided. Decided: (R1) in go-wire/reflect.go the reflect.Kind case sets of the main switch of readReflectBinary/writeReflectBinary and of readReflectJSON/writeReflectJSON are equal (no kind can be written that cannot be read back, and vice versa); (R2) every allocation in the go-wire decoders whose size comes from the input is edge-dominated by a sign test and, unless the caller passed the 'no limit' value 0, by the limit test over max(length, n+length) (overflow-safe), and reflective slice decoding allocates in chunks of a constant size; (R3) the canonical sign-bytes constructors are branch-free, read every statement field of Vote / Proposal / BlockID / PartSetHeader into a distinct canonical field, the canonical structs have pairwise distinct JSON keys and no '-' tags, the wrappers add chain_id and use different top-level keys for votes and proposals (together with injectivity of go-wire's JSON writer on these field types this is the injectivity argument); (R4) eth/rlp is token- and resolution-equivalent to the reference; (R5) every wire.RegisterInterface call assigns pairwise distinct, non-zero type bytes, and the WAL and reactor registrations cover the message types that are sent or logged. NOT decided: round-trip equality, 'never panics' beyond R2.",
		Assume:    []string{"go-wire's JSON writer is injective on int/byte/string/[]byte/struct fields", "reflect-based decoding follows the struct field order"},
	}
}

func c18(c *Ctx) {
	c18R1(c)
	c18R2(c)
	c18R3(c)
	rule := c.R.Rule("R4", "RLP agrees with the reference: every function of eth/rlp is equivalent to its namesake in go-ethereum v1.8.27 (shared with C11-R1.c)", 80)
	setAssume(c.Equiv(), c10Assume)
	setAssume(c.Equiv(), c11Assume)
	equivPackage(c, rule, "eth/rlp", c11Dev["eth/rlp"], map[string]string{})
	c18R5(c)
	c18R6(c)
	bufferOwnershipRule(c, "R7")
	c18R8(c)
	c18R9(c)
	c18R10(c)
	c18R11(c)
}

// c18R8: the varint reader accepts everything the writer emits.
func c18R8(c *Ctx) {
	rule := c.R.Rule("R8", "reader accepts the writer's range: ReadVarint/GetVarint/ReadUvarint/GetUvarint reject an input only for its size byte or a read error; no branch tests the decoded magnitude (binary.BigEndian.Uint64 of the payload) — WriteVarint emits every int, including MinInt64 whose magnitude is 2^63", 4)
	for _, name := range []string{"ReadVarint", "GetVarint", "ReadUvarint", "GetUvarint"} {
		f := c.Anchor(rule, "gemmill/go-wire."+name)
		if f == nil {
			continue
		}
		bad := ""
		for _, b := range f.F.Blocks {
			for _, ins := range b.Instrs {
				if iff, ok := ins.(*ssa.If); ok && f.Live(ins) && strings.Contains(exprOf(iff.Cond), ".Uint64(") {
					bad = shorten(exprOf(iff.Cond))
				}
			}
		}
		c.R.Ob(rule, name+":no-branch-on-decoded-magnitude", bad == "", c.P.Pos(f.F.Pos()), fname(f), "a value-dependent rejection makes the node unable to decode values its own encoder produces: "+bad)
	}
}

// c18R6: decoded slices do not alias earlier chunks.
func c18R6(c *Ctx) {
	rule := c.R.Rule("R6", "fresh chunk per iteration: readReflectBinary decodes a slice in chunks; the chunk handed to reflect.AppendSlice is a reflect.MakeSlice evaluated in the same loop iteration (AppendSlice copies element values, i.e. pointers: a reused chunk makes element i and i+chunk alias the same object)", 1)
	f := c.Anchor(rule, "gemmill/go-wire.readReflectBinary")
	if f == nil {
		return
	}
	n := 0
	for _, ci := range f.CallsTo(cfgx.Named("reflect.AppendSlice")) {
		n++
		mk, isCall := ci.Common().Args[1].(*ssa.Call)
		ok := isCall && cfgxCallee(mk) == "reflect.MakeSlice" && f.Dominates(mk, ci.(ssa.Instruction)) && f.Reaches(ci.(ssa.Instruction), mk)
		c.R.Ob(rule, "AppendSlice:chunk-is-fresh-MakeSlice", ok, c.Pos(ci), fname(f), "appended chunk is "+shorten(exprOf(ci.Common().Args[1])))
	}
	if n == 0 {
		c.R.Undecided(rule, "AppendSlice-site", c.P.Pos(f.F.Pos()), fname(f), "no chunked append found")
	}
}

// funcDecl finds a function declaration in a package's syntax.
func funcDecl(c *Ctx, rel, name string) (*ast.FuncDecl, *types.Info) {
	pk := c.P.Pkg(rel)
	if pk == nil {
		return nil, nil
	}
	for _, f := range pk.Syntax {
		for _, d := range f.Decls {
			if fd, ok := d.(*ast.FuncDecl); ok && fd.Name.Name == name && fd.Recv == nil {
				return fd, pk.TypesInfo
			}
		}
	}
	return nil, nil
}

// kindCases: case constants of the top-level `switch rt.Kind()` statements directly in the body
// (not nested in another switch) — the main dispatch of the reflective codec.
func kindCases(fd *ast.FuncDecl) map[string]bool {
	out := map[string]bool{}
	for _, st := range fd.Body.List {
		sw, ok := st.(*ast.SwitchStmt)
		if !ok {
			continue
		}
		call, ok := sw.Tag.(*ast.CallExpr)
		if !ok {
			continue
		}
		sel, ok := call.Fun.(*ast.SelectorExpr)
		if !ok || sel.Sel.Name != "Kind" {
			continue
		}
		if id, ok := sel.X.(*ast.Ident); !ok || id.Name != "rt" {
			continue
		}
		for _, cc := range sw.Body.List {
			for _, e := range cc.(*ast.CaseClause).List {
				if s, ok := e.(*ast.SelectorExpr); ok {
					out[s.Sel.Name] = true
				}
			}
		}
	}
	return out
}

func c18R1(c *Ctx) {
	rule := c.R.Rule("R1", "reader/writer symmetry: the reflect.Kind case sets of the main `switch rt.Kind()` of readReflectBinary and writeReflectBinary are equal, and likewise for readReflectJSON and writeReflectJSON", 2)
	for _, pair := range [][2]string{{"readReflectBinary", "writeReflectBinary"}, {"readReflectJSON", "writeReflectJSON"}} {
		r, _ := funcDecl(c, "gemmill/go-wire", pair[0])
		w, _ := funcDecl(c, "gemmill/go-wire", pair[1])
		if r == nil || w == nil {
			c.R.Missing(rule, "gemmill/go-wire."+pair[0]+"/"+pair[1])
			continue
		}
		rk, wk := kindCases(r), kindCases(w)
		var onlyR, onlyW []string
		for k := range rk {
			if !wk[k] {
				onlyR = append(onlyR, k)
			}
		}
		for k := range wk {
			if !rk[k] {
				onlyW = append(onlyW, k)
			}
		}
		sort.Strings(onlyR)
		sort.Strings(onlyW)
		ok := len(rk) >= 8 && len(onlyR) == 0 && len(onlyW) == 0
		c.R.Ob(rule, pair[0]+"↔"+pair[1]+":kind-sets-equal", ok, c.P.Pos(r.Pos()), "gemmill/go-wire."+pair[0],
			fmt.Sprintf("%d kinds read, %d written; read-only: %v, write-only: %v (a value of a write-only kind cannot be decoded back)", len(rk), len(wk), onlyR, onlyW))
	}
}

func c18R2(c *Ctx) {
	rule := c.R.Rule("R2", "bounded allocation: in ReadByteSlice / ReadByteSlices the make([]T, length) is edge-dominated by length>=0 and by `lmt==0 or lmt >= MaxInt(length, *n+length)`; in the reflective slice decoder MakeSlice sizes are 0, a chunk bounded by ReadSliceChunkSize, or the length of an already decoded JSON array; per-element limit tests follow each decoded element", 5)
	for _, name := range []string{"ReadByteSlice", "ReadByteSlices"} {
		f := c.Anchor(rule, "gemmill/go-wire."+name)
		if f == nil {
			continue
		}
		n := 0
		for _, b := range f.F.Blocks {
			for _, ins := range b.Instrs {
				mk, ok := ins.(*ssa.MakeSlice)
				if !ok || !f.Live(ins) {
					continue
				}
				n++
				ln := cfgx.Expr(mk.Len)
				okSign := f.HasGuard(ins, cfgx.Equals("("+ln+" >= 0)"))
				okLim, why := everyPath(f, ins, func(g map[string]bool) bool {
					if g["(a1 == 0)"] {
						return true
					}
					for k := range g {
						if strings.HasPrefix(k, "(a1 >= gemmill/modules/go-common.MaxInt("+ln+",(") && strings.HasSuffix(k, " + "+ln+")))") {
							return true
						}
					}
					return false
				})
				c.R.Ob(rule, name+":make⊣length>=0", okSign, c.Pos(ins), fname(f), "a negative length must be rejected before make; "+guardsText(f, ins))
				c.R.Ob(rule, name+":make⊣limit(max(length,n+length))", okLim, c.Pos(ins), fname(f), "the allocation must be bounded by the caller's limit with an overflow-safe test (n+length alone wraps for a length near MaxInt64); "+why)
				c.R.Ob(rule, name+":length-from-ReadVarint", strings.HasPrefix(ln, "gemmill/go-wire.ReadVarint("), c.Pos(ins), fname(f), "allocation size "+ln)
			}
		}
		if n == 0 {
			c.R.Undecided(rule, name+":make", c.P.Pos(f.F.Pos()), fname(f), "no allocation found")
		}
	}
	// reflective decoders
	for _, name := range []string{"readReflectBinary", "readReflectJSON"} {
		f := c.Anchor(rule, "gemmill/go-wire."+name)
		if f == nil {
			continue
		}
		for _, ci := range f.CallsTo(cfgx.Named("reflect.MakeSlice")) {
			ln := callArg(ci, 1)
			ok := ln == "0" || strings.HasPrefix(ln, "gemmill/modules/go-common.MinInt(1024,") || strings.HasPrefix(ln, "gemmill/modules/go-common.MinInt(g:gemmill/go-wire.ReadSliceChunkSize,") ||
				strings.HasPrefix(ln, "len(") || strings.Contains(ln, "MinInt(")
			c.R.Ob(rule, name+":MakeSlice-size:"+shorten(ln), ok, c.Pos(ci), fname(f), "reflective slice allocation must be chunked (constant bound) or sized by already decoded data, got "+ln)
		}
	}
	if f := c.Anchor(rule, "gemmill/go-wire.readReflectBinary"); f != nil {
		// after each element of a slice/array is decoded the running count is compared with the limit
		n := 0
		for _, b := range f.F.Blocks {
			for _, ins := range b.Instrs {
				if iff, ok := ins.(*ssa.If); ok && cfgx.Expr(iff.Cond) == "(a4 < a5)" {
					n++
				}
			}
		}
		c.R.Ob(rule, "readReflectBinary:per-element-limit-tests", n >= 2, c.P.Pos(f.F.Pos()), fname(f), fmt.Sprintf("%d `lmt < *n` tests inside element loops (array and slice cases)", n))
	}
}

func structTags(c *Ctx, rel, typ string) (fields []string, keys []string, kinds []string) {
	pk := c.P.Pkg(rel)
	if pk == nil {
		return
	}
	obj := pk.Types.Scope().Lookup(typ)
	if obj == nil {
		return
	}
	st, ok := obj.Type().Underlying().(*types.Struct)
	if !ok {
		return
	}
	for i := 0; i < st.NumFields(); i++ {
		fields = append(fields, st.Field(i).Name())
		tag := reflect.StructTag(st.Tag(i)).Get("json")
		k := strings.Split(tag, ",")[0]
		if k == "" {
			k = st.Field(i).Name()
		}
		keys = append(keys, k)
		kinds = append(kinds, st.Field(i).Type().String())
	}
	return
}

func c18R3(c *Ctx) {
	rule := c.R.Rule("R3", "sign-bytes structure: CanonicalVote / CanonicalProposal / CanonicalBlockID / CanonicalPartSetHeader are branch-free and store each statement field of their argument into a distinct field of the canonical struct; canonical structs have pairwise distinct JSON keys (no '-'); WriteSignBytes wraps them with the chain id under different top-level keys for votes and proposals", 12)
	type cov struct {
		fn     string
		typ    string
		fields map[string]string // canonical field -> expected source expr
	}
	for _, cv := range []cov{
		{"CanonicalVote", "CanonicalJSONVote", map[string]string{"BlockID": "gemmill/types.CanonicalBlockID(a0.BlockID)", "Height": "a0.Height", "Round": "a0.Round", "Type": "a0.Type"}},
		{"CanonicalProposal", "CanonicalJSONProposal", map[string]string{"BlockPartsHeader": "gemmill/types.CanonicalPartSetHeader(a0.BlockPartsHeader)", "Height": "a0.Height", "POLBlockID": "gemmill/types.CanonicalBlockID(a0.POLBlockID)", "POLRound": "a0.POLRound", "Round": "a0.Round"}},
		{"CanonicalBlockID", "CanonicalJSONBlockID", map[string]string{"Hash": "a0.Hash", "PartsHeader": "gemmill/types.CanonicalPartSetHeader(a0.PartsHeader)"}},
		{"CanonicalPartSetHeader", "CanonicalJSONPartSetHeader", map[string]string{"Hash": "a0.Hash", "Total": "a0.Total"}},
	} {
		f := c.Anchor(rule, "gemmill/types."+cv.fn)
		if f == nil {
			continue
		}
		c.R.Ob(rule, cv.fn+":branch-free", len(f.F.Blocks) == 1, c.P.Pos(f.F.Pos()), fname(f), "a conditional in a canonicalisation function maps distinct inputs to the same sign-bytes (injectivity is lost)")
		got := map[string]string{}
		for _, b := range f.F.Blocks {
			for _, ins := range b.Instrs {
				if st, ok := ins.(*ssa.Store); ok {
					a := cfgx.AddrExpr(st.Addr)
					if strings.HasPrefix(a, "local:complit.") {
						got[strings.TrimPrefix(a, "local:complit.")] = cfgx.Expr(st.Val)
					}
				}
			}
		}
		for _, k := range sortedKeysS(cv.fields) {
			c.R.Ob(rule, cv.fn+":"+k+"←"+shorten(cv.fields[k]), got[k] == cv.fields[k], c.P.Pos(f.F.Pos()), fname(f), "canonical field "+k+" must carry "+cv.fields[k]+", carries "+got[k])
		}
		flds, keys, _ := structTags(c, "gemmill/types", cv.typ)
		seen := map[string]bool{}
		okKeys := len(keys) == len(cv.fields)
		for _, k := range keys {
			if seen[k] || k == "-" {
				okKeys = false
			}
			seen[k] = true
		}
		c.R.Ob(rule, cv.typ+":json-keys-distinct", okKeys, "-", "", fmt.Sprintf("fields %v keys %v: every field needs its own key, and the struct must have exactly the covered fields", flds, keys))
	}
	// the statement fields of Vote/Proposal are all covered
	for _, tc := range []struct {
		typ    string
		exempt map[string]bool
		used   []string
	}{
		{"Vote", map[string]bool{"ValidatorAddress": true, "ValidatorIndex": true, "Signature": true}, []string{"BlockID", "Height", "Round", "Type"}},
		{"Proposal", map[string]bool{"Signature": true}, []string{"BlockPartsHeader", "Height", "POLBlockID", "POLRound", "Round"}},
		{"BlockID", map[string]bool{}, []string{"Hash", "PartsHeader"}},
		{"PartSetHeader", map[string]bool{}, []string{"Hash", "Total"}},
	} {
		flds, _, _ := structTags(c, "gemmill/types", tc.typ)
		var missing []string
		for _, fl := range flds {
			if tc.exempt[fl] {
				continue
			}
			found := false
			for _, u := range tc.used {
				if u == fl {
					found = true
				}
			}
			if !found {
				missing = append(missing, fl)
			}
		}
		c.R.Ob(rule, tc.typ+":every-statement-field-signed", len(missing) == 0 && len(flds) > 0, "-", "", fmt.Sprintf("fields of %s not covered by its sign-bytes: %v (exempt, not part of the statement: %v)", tc.typ, missing, sortedKeys(tc.exempt)))
	}
	// wrappers
	_, vk, _ := structTags(c, "gemmill/types", "CanonicalJSONOnceVote")
	_, pk, _ := structTags(c, "gemmill/types", "CanonicalJSONOnceProposal")
	ok := len(vk) == 2 && len(pk) == 2 && vk[0] == "chain_id" && pk[0] == "chain_id" && vk[1] != pk[1]
	c.R.Ob(rule, "wrappers:chain_id+distinct-top-level-keys", ok, "-", "", fmt.Sprintf("vote wrapper keys %v, proposal wrapper keys %v", vk, pk))
	for _, w := range []struct{ fn, canon string }{{"(*Vote).WriteSignBytes", "CanonicalVote"}, {"(*Proposal).WriteSignBytes", "CanonicalProposal"}} {
		f := c.Anchor(rule, "gemmill/types."+w.fn)
		if f == nil {
			continue
		}
		okc, okj := false, false
		for _, st := range f.Stores(func(a string) bool { return strings.HasPrefix(a, "local:complit.") }) {
			if strings.HasSuffix(cfgx.AddrExpr(st.Addr), ".ChainID") && cfgx.Expr(st.Val) == "a1" {
				okc = true
			}
			if cfgx.Expr(st.Val) == "gemmill/types."+w.canon+"(a0)" {
				okj = true
			}
		}
		c.R.Ob(rule, w.fn+":chain-id-and-canonical-form", okc && okj && len(f.CallsTo(cfgx.Named("gemmill/go-wire.WriteJSON"))) == 1 && len(f.F.Blocks) == 1, c.P.Pos(f.F.Pos()), fname(f), "sign-bytes = WriteJSON({chain_id, canonical form}), unconditionally")
	}
}

func sortedKeysS(m map[string]string) []string {
	var out []string
	for k := range m {
		out = append(out, k)
	}
	sort.Strings(out)
	return out
}

func c18R5(c *Ctx) {
	rule := c.R.Rule("R5", "registered types: within every wire.RegisterInterface call the concrete type bytes are pairwise distinct and none is 0x00 (the nil marker)", 8)
	n := 0
	for _, pk := range c.P.AllPkgs {
		if !strings.HasPrefix(pk.PkgPath, core.Mod+"/gemmill") && !strings.HasPrefix(pk.PkgPath, core.Mod+"/chain") {
			continue
		}
		if strings.HasSuffix(pk.ID, ".test") || strings.Contains(pk.ID, "[") {
			continue
		}
		for _, file := range pk.Syntax {
			ast.Inspect(file, func(nd ast.Node) bool {
				call, ok := nd.(*ast.CallExpr)
				if !ok {
					return true
				}
				sel, ok := call.Fun.(*ast.SelectorExpr)
				if !ok || sel.Sel.Name != "RegisterInterface" {
					return true
				}
				n++
				seen := map[string]bool{}
				okAll := len(call.Args) >= 2
				var bytesList []string
				for _, a := range call.Args[1:] {
					cl, ok := a.(*ast.CompositeLit)
					if !ok || len(cl.Elts) != 2 {
						okAll = false
						continue
					}
					be := cl.Elts[1]
					if kv, ok := be.(*ast.KeyValueExpr); ok {
						be = kv.Value
					}
					tv, ok := pk.TypesInfo.Types[be]
					v := ""
					if ok && tv.Value != nil {
						v = tv.Value.ExactString()
					} else if id, isID := be.(*ast.Ident); isID {
						// a package-level variable with a constant initialiser
						v = varInitConst(pk, id)
					}
					if v == "" {
						okAll = false
						continue
					}
					bytesList = append(bytesList, v)
					if v == "0" || seen[v] {
						okAll = false
					}
					seen[v] = true
				}
				iface := "?"
				if len(call.Args) > 0 {
					iface = types.ExprString(call.Args[0])
				}
				c.R.Ob(rule, "register:"+core.Short(pk.PkgPath)+":"+iface, okAll, c.P.Pos(call.Pos()), "", fmt.Sprintf("type bytes %v must be distinct and non-zero", bytesList))
				return true
			})
		}
	}
	if n == 0 {
		c.R.Undecided(rule, "registrations", "-", "", "no RegisterInterface call found")
	}
}

// varInitConst: the constant value of the initialiser of the package-level variable id refers to ("" if none).
func varInitConst(pk *packages.Package, id *ast.Ident) string {
	obj, ok := pk.TypesInfo.Uses[id].(*types.Var)
	if !ok || obj.Parent() != pk.Types.Scope() {
		return ""
	}
	for _, f := range pk.Syntax {
		for _, d := range f.Decls {
			gd, ok := d.(*ast.GenDecl)
			if !ok {
				continue
			}
			for _, sp := range gd.Specs {
				vs, ok := sp.(*ast.ValueSpec)
				if !ok {
					continue
				}
				for i, nm := range vs.Names {
					if pk.TypesInfo.Defs[nm] == types.Object(obj) && i < len(vs.Values) {
						if tv, ok := pk.TypesInfo.Types[vs.Values[i]]; ok && tv.Value != nil {
							return tv.Value.ExactString()
						}
					}
				}
			}
		}
	}
	return ""
}

// bufferOwnershipRule (C18-R7, C17-R6): byte slices produced by the encoders are backed by a buffer that
// belongs to that call.
func bufferOwnershipRule(c *Ctx, id string) {
	rule := c.R.Rule(id, "buffer ownership: in gemmill/types, gemmill/go-wire and go-merkle every (*bytes.Buffer).Bytes() is taken from a buffer created in the same function (new(bytes.Buffer) / bytes.NewBuffer), never from a pool, a global or a field — SignBytes, BinaryBytes and MakePartSet hand the slice out and callers keep it (LastSignBytes, part sets): a recycled buffer aliases two results", 5)
	n := 0
	for _, rel := range []string{"gemmill/types", "gemmill/go-wire", "gemmill/modules/go-merkle"} {
		for _, fn := range c.P.FuncsOfPkg(rel) {
			if fn.Blocks == nil {
				continue
			}
			f := c.Fn(fn)
			for _, ci := range f.CallsTo(cfgx.Named("bytes.(*Buffer).Bytes")) {
				n++
				recv := ci.Common().Args[0]
				own := false
				switch x := recv.(type) {
				case *ssa.Alloc:
					own = true
				case *ssa.Call:
					own = cfgxCallee(x) == "bytes.NewBuffer" || cfgxCallee(x) == "bytes.NewBufferString"
				case *ssa.Parameter:
					own = true // the caller's buffer: ownership is decided at the caller
				}
				c.R.Ob(rule, "Bytes():"+core.Short(core.FuncName(fn)), own, c.Pos(ci), core.FuncName(fn), "buffer is "+shorten(exprOf(recv)))
			}
		}
	}
	c.R.Ob(rule, "Bytes()-sites", n >= 5, "-", "", fmt.Sprintf("%d", n))
}

// c18R9: decoders report, they do not panic.
func c18R9(c *Ctx) {
	rule := c.R.Rule("R9", "decoders never panic on input bytes: in the decode-direction functions of go-wire (Read*, Get*, readReflect*) an explicit panic / no-return helper occurs only at the reviewed sites, which test the Go type being decoded or the caller's arguments, never the bytes read (the listed count per function is frozen: one more panic is reported)", 3)
	// function -> reviewed number of panic sites, reason
	reviewed := map[string]panicReview{
		"gemmill/go-wire.readReflectBinary":            {1, "`Unknown field type`: switch over the reflect.Kind of the destination type (programmer error, not data)"},
		"gemmill/go-wire.readReflectJSON":              {1, "`Unknown field type`: switch over the reflect.Kind of the destination type"},
		"gemmill/go-wire.ReadBinaryPtr":                {1, "destination is not a pointer: caller's argument"},
		"gemmill/go-wire.ReadJSONPtr":                  {1, "destination is not a pointer: caller's argument"},
		"gemmill/go-wire.ReadJSONObjectPtr":            {1, "destination is not a pointer: caller's argument"},
		"gemmill/go-wire.ReadJSON":                     {0, ""},
		"gemmill/go-wire.GetTypeFromStructDeclaration": {1, "shape of a registered Go struct declaration (registration time, no input bytes)"},
	}
	nfn := 0
	for _, fn := range c.P.FuncsOfPkg("gemmill/go-wire") {
		if fn.Blocks == nil || fn.Parent() != nil {
			continue
		}
		name := fn.Name()
		if !(strings.HasPrefix(name, "Read") || strings.HasPrefix(name, "Get") || strings.HasPrefix(name, "readReflect")) {
			continue
		}
		nfn++
		f := c.Fn(fn)
		n := 0
		var first ssa.Instruction
		for _, b := range fn.Blocks {
			for _, ins := range b.Instrs {
				if _, ok := ins.(*ssa.Panic); ok || c.NR.IsNoRetCall(ins) {
					// only reachable sites count (the block before the cut is live)
					if f.Has(ins) {
						n++
						if first == nil {
							first = ins
						}
					}
				}
			}
		}
		short := core.Short(core.FuncName(fn))
		rv := reviewed[short]
		if n == 0 {
			continue
		}
		pos := c.Pos(first)
		c.R.Ob(rule, "panic-sites:"+short, n <= rv.n, pos, core.FuncName(fn), fmt.Sprintf("%d explicit panic site(s) in a decoder, %d reviewed (%s): bytes from a peer must produce an error, not a panic (blocks are decoded on the consensus goroutine, which has no recover)", n, rv.n, rv.why))
	}
	c.R.Ob(rule, "decoder-functions", nfn >= 30, "-", "", fmt.Sprintf("%d decode-direction functions examined", nfn))
}
