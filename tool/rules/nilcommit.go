package rules

import (
	"strings"

	"golang.org/x/tools/go/ssa"

	"annverif/cfgx"
	"annverif/core"
)

// nilCommitRule (C13-R4, C02-R6, C08): the commit handed to VerifyCommit comes from a peer-decoded
// block (second.LastCommit, block.LastCommit) and may be nil or contain only nil precommits.
func nilCommitRule(c *Ctx, id string) {
	rule := c.R.Rule(id, "peer-nullable commit: VerifyCommit tests commit != nil before its first dereference; Commit.Height/Round do not dereference FirstPrecommit()'s result without a nil test (it is nil when every precommit is nil); Commit.ValidateBasic likewise", 4)
	nilCommitRuleInto(c, rule)
}

// nilCommitRuleInto adds the nil-commit obligations to an existing rule.
func nilCommitRuleInto(c *Ctx, rule string) {
	if f := c.Anchor(rule, valsT+".VerifyCommit"); f != nil {
		ok := true
		n := 0
		var where ssa.Instruction
		for _, b := range f.F.Blocks {
			for _, ins := range b.Instrs {
				if !f.Live(ins) {
					continue
				}
				deref := false
				switch x := ins.(type) {
				case *ssa.FieldAddr:
					deref = cfgx.Expr(x.X) == "a4"
				case ssa.CallInstruction:
					// method calls on the commit that dereference it are covered by their own obligations below
				}
				if deref {
					n++
					if !f.HasGuard(ins, cfgx.Equals("(a4 != nil)")) {
						ok = false
						if where == nil {
							where = ins
						}
					}
				}
			}
		}
		pos := c.P.Pos(f.F.Pos())
		if where != nil {
			pos = c.Pos(where)
		}
		c.R.Ob(rule, "VerifyCommit:commit-nil-checked", ok && n > 0, pos, fname(f), "commit (a4) is dereferenced without `commit != nil`: a sync peer answering with a block whose LastCommit is nil crashes poolRoutine (no recover)")
	}
	for _, m := range []string{"Height", "Round"} {
		f := c.Anchor(rule, "gemmill/types.(*Commit)."+m)
		if f == nil {
			continue
		}
		ok := true
		n := 0
		for _, ci := range f.CallsTo(cfgx.Named("gemmill/types.(*Commit).FirstPrecommit")) {
			call := ci.(*ssa.Call)
			for _, r := range *call.Referrers() {
				if fa, isFA := r.(*ssa.FieldAddr); isFA && f.Live(fa) {
					n++
					if !f.HasGuard(fa, cfgx.Equals("("+cfgx.Expr(call)+" != nil)")) {
						ok = false
					}
				}
			}
		}
		// alternatively the result may be kept in a local and tested
		if n == 0 {
			for _, b := range f.F.Blocks {
				for _, ins := range b.Instrs {
					if fa, isFA := ins.(*ssa.FieldAddr); isFA && f.Live(fa) && strings.Contains(cfgx.Expr(fa.X), "FirstPrecommit(") {
						n++
						if !f.HasGuard(fa, func(g string) bool { return strings.Contains(g, "FirstPrecommit(") && strings.HasSuffix(g, " != nil)") }) {
							ok = false
						}
					}
				}
			}
		}
		c.R.Ob(rule, "Commit."+m+":FirstPrecommit-nil-checked", ok && n > 0, c.P.Pos(f.F.Pos()), fname(f), "FirstPrecommit() returns nil when all precommits are nil; dereferencing it crashes the caller (VerifyCommit / ValidateBasic on a peer-supplied commit)")
		// nil receiver tolerated
		okRecv := true
		for _, b := range f.F.Blocks {
			for _, ins := range b.Instrs {
				if fa, isFA := ins.(*ssa.FieldAddr); isFA && f.Live(fa) && cfgx.Expr(fa.X) == "a0" && !f.HasGuard(fa, cfgx.Equals("(a0 != nil)")) {
					okRecv = false
				}
			}
		}
		c.R.Ob(rule, "Commit."+m+":nil-receiver-tolerated", okRecv, c.P.Pos(f.F.Pos()), fname(f), "Commit."+m+"() is called on peer-supplied commits that may be nil")
	}
	_ = core.Mod
}
