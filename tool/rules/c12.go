package rules

import (
	"fmt"
	"go/constant"
	"go/types"
	"strings"

	"golang.org/x/tools/go/ssa"

	"annverif/cfgx"
	"annverif/core"
	"annverif/dtable"
)

func init() {
	Registry["C12"] = c12
	Metas["C12"] = Meta{Level: "other", NeedCG: true,
		Technique: "static analysis: must-send-exactly-once path check on hook listeners, blocking-send reachability from the consensus goroutine over the VTA call graph, lock-order graph, finite-domain decision tables of the timeout staleness tests, must-schedule dominance",
		Explain:   "Liveness (termination under fair schedules) is not statically decidable here; decided instead are the structural ways this node can wedge itself. (R1) every hook listener that owes a reply sends exactly once on the event's ResCh on every path, the reply channels have capacity >= 1, and default listeners are installed when no application hooked; (R2) no blocking channel send on the consensus goroutine's own input queues is reachable (without `go`) from handleMsg/handleTimeout, and the ticker routine never blocks outside its select; (R3) the lock-order graph over the named mutexes reachable from the consensus and gossip routines is acyclic; (R4) the staleness decision tables of handleTimeout (27 states), timeoutRoutine (81 states) and CompareHRS (27 states) equal their specifications, exhaustively; handleTimeout dispatches each step to the right transition; (R5) every wait step schedules its own timeout on all paths and the height epilogue schedules round 0. (R6) defaultSetProposal rejects a proposal for its POLRound exactly outside {-1} ∪ [0, Round). (R7) round timeouts evaluate to (base+delta*round) ms for sample configurations (symbolic evaluation of the return expression); (R8) the vote gossip serves every lag (0, 1, >=2) of a peer. NOT decided: termination, fairness, gossip completeness.",
		Assume:    []string{"Go runtime scheduling is fair", "time.Timer fires"},
	}
}

func c12(c *Ctx) {
	c12R1(c)
	c12R2(c)
	c12R3(c)
	c12R4(c)
	c12R5(c)
	c12R6(c)
	c12R7(c)
	c12R8(c)
	c12R9(c)
	noSendUnderConsensusLock(c, "R10")
	setRoundRule(c, "R11")
	c12R12(c)
	shared(c, "C07", c07R4)
	shared(c, "C03", c03R3, c03R5)
}

func isResChSend(ins ssa.Instruction) bool {
	s, ok := ins.(*ssa.Send)
	return ok && strings.HasSuffix(cfgx.Expr(s.Chan), ".ResCh")
}

func c12R1(c *Ctx) {
	rule := c.R.Rule("R1", "hooks always answer: every listener whose event data carries a ResCh sends exactly once on it on every normal path; NewEventDataHook* create ResCh with capacity>=1; every receive from ed.ResCh follows the firing of that event; Angine.Start installs default listeners when no application is hooked", 12)
	// listeners: closures that type-assert their parameter to an EventDataHook* type with a ResCh field
	n := 0
	for _, fn := range c.P.RepoFuncs() {
		if fn.Parent() == nil {
			continue
		}
		f := c.Fn(fn)
		owes := ""
		for _, b := range fn.Blocks {
			for _, ins := range b.Instrs {
				ta, ok := ins.(*ssa.TypeAssert)
				if !ok {
					continue
				}
				if st, ok := ta.AssertedType.Underlying().(*types.Struct); ok {
					for i := 0; i < st.NumFields(); i++ {
						if st.Field(i).Name() == "ResCh" {
							owes = ta.AssertedType.String()
						}
					}
				}
			}
		}
		if owes == "" {
			continue
		}
		n++
		name := core.Short(fname(f))
		// (a) no path from entry to a return avoiding a send
		bad, path := f.PathAvoiding(nil, cfgx.IsReturn, isResChSend)
		c.R.Ob(rule, "listener:"+name+":replies-on-every-path", !bad, c.P.Pos(fn.Pos()), fname(f), fmt.Sprintf("a path through blocks %v returns without sending on ResCh: the consensus goroutine blocks forever on <-ed.ResCh", path))
		// (b) never twice
		twice := false
		for _, b := range fn.Blocks {
			for _, ins := range b.Instrs {
				if isResChSend(ins) && f.Live(ins) {
					if again, _ := f.PathAvoiding(ins, isResChSend, nil); again {
						twice = true
					}
				}
			}
		}
		c.R.Ob(rule, "listener:"+name+":replies-once", !twice, c.P.Pos(fn.Pos()), fname(f), "two sends on ResCh (capacity 1) on one path would block the event switch")
	}
	if n == 0 {
		c.R.Undecided(rule, "listeners", "-", "", "no hook listener found")
	}
	// capacity
	for _, ctor := range []string{"NewEventDataHookNewRound", "NewEventDataHookExecute", "NewEventDataHookCommit"} {
		f := c.Anchor(rule, "gemmill/types."+ctor)
		if f == nil {
			continue
		}
		ok := false
		for _, b := range f.F.Blocks {
			for _, ins := range b.Instrs {
				if mc, isMC := ins.(*ssa.MakeChan); isMC {
					if cst, isC := mc.Size.(*ssa.Const); isC && cst.Value != nil {
						if v, _ := constant.Int64Val(cst.Value); v >= 1 {
							ok = true
						}
					}
				}
			}
		}
		c.R.Ob(rule, ctor+":ResCh-buffered", ok, c.P.Pos(f.F.Pos()), fname(f), "ResCh must have capacity >= 1 so that a listener's reply never blocks the event switch")
	}
	// receives follow the firing
	for _, fn := range c.P.RepoFuncs() {
		f := c.Fn(fn)
		for _, b := range fn.Blocks {
			for _, ins := range b.Instrs {
				u, ok := ins.(*ssa.UnOp)
				if !ok || u.Op.String() != "<-" || !strings.HasSuffix(cfgx.Expr(u.X), ".ResCh") || !f.Live(ins) {
					continue
				}
				fired := false
				for _, ci := range f.CallsTo(func(n string) bool { return strings.HasPrefix(n, "gemmill/types.FireEventHook") }) {
					if f.Dominates(ci, u) {
						fired = true
					}
				}
				c.R.Ob(rule, "receive-ResCh-in:"+core.Short(fname(f)), fired, c.Pos(u), fname(f), "waiting on ed.ResCh without having fired the hook event deadlocks")
			}
		}
	}
	if f := c.Anchor(rule, "gemmill.(*Angine).Start"); f != nil {
		cs := f.CallsTo(cfgx.Named("gemmill.(*Angine).hookDefaults"))
		ok := len(cs) == 1 && f.HasGuard(cs[0], cfgx.Equals("!a0.hooked"))
		c.R.Ob(rule, "Angine.Start:defaults-when-unhooked", ok, c.P.Pos(f.F.Pos()), fname(f), "default hook listeners must be installed when no application called ConnectApp")
	}
}

func c12R2(c *Ctx) {
	rule := c.R.Rule("R2", "no self-blocking send: no plain channel send on ConsensusState.internalMsgQueue / peerMsgQueue is reachable (through calls, not through `go`) from handleMsg or handleTimeout — the consensus goroutine is the only consumer of those queues; sendInternalMessage uses a non-blocking select with a goroutine fallback; the ticker's timeoutRoutine performs no send outside a `go` closure", 3)
	hm := c.P.F(csT + ".handleMsg")
	ht := c.P.F(csT + ".handleTimeout")
	if hm == nil || ht == nil {
		c.R.Missing(rule, "handleMsg/handleTimeout")
		return
	}
	reach := c.P.Reachable([]*ssa.Function{hm, ht}, true, func(fn *ssa.Function) bool {
		n := core.FuncName(fn)
		return !strings.HasPrefix(n, core.Mod)
	})
	nf := 0
	bad := 0
	for fn := range reach {
		if fn.Blocks == nil {
			continue
		}
		nf++
		f := c.Fn(fn)
		for _, b := range fn.Blocks {
			for _, ins := range b.Instrs {
				s, ok := ins.(*ssa.Send)
				if !ok || !f.Live(ins) {
					continue
				}
				ch := cfgx.Expr(s.Chan)
				if strings.HasSuffix(ch, ".internalMsgQueue") || strings.HasSuffix(ch, ".peerMsgQueue") {
					bad++
					c.R.Ob(rule, "blocking-send:"+core.Short(fname(f))+":"+ch, false, c.Pos(s), fname(f), "blocking send on a queue that only the current goroutine drains: when the queue is full the node deadlocks holding cs.mtx")
				}
			}
		}
	}
	c.R.Ob(rule, "consensus-goroutine:no-blocking-self-send", bad == 0, c.P.Pos(hm.Pos()), core.FuncName(hm), fmt.Sprintf("%d functions reachable from handleMsg/handleTimeout analysed", nf))
	c.R.Extra["C12_R2_reachable_functions"] = nf
	if f := c.Anchor(rule, csT+".sendInternalMessage"); f != nil {
		nonblocking := false
		for _, b := range f.F.Blocks {
			for _, ins := range b.Instrs {
				if sel, ok := ins.(*ssa.Select); ok && !sel.Blocking {
					for _, st := range sel.States {
						if strings.HasSuffix(cfgx.Expr(st.Chan), ".internalMsgQueue") {
							nonblocking = true
						}
					}
				}
			}
		}
		c.R.Ob(rule, "sendInternalMessage:non-blocking-select", nonblocking, c.P.Pos(f.F.Pos()), fname(f), "internal messages must be queued with select/default (goroutine fallback)")
	}
	if f := c.Anchor(rule, "gemmill/consensus/pbft.(*timeoutTicker).timeoutRoutine"); f != nil {
		sends := 0
		for _, b := range f.F.Blocks {
			for _, ins := range b.Instrs {
				if _, ok := ins.(*ssa.Send); ok && f.Live(ins) {
					sends++
				}
			}
		}
		c.R.Ob(rule, "timeoutRoutine:no-inline-send", sends == 0, c.P.Pos(f.F.Pos()), fname(f), "the ticker must stay available to read tickChan: tock delivery has to be in a `go` closure")
	}
}

func c12R3(c *Ctx) {
	lockOrderRule(c, "R3")
}

func c12R4(c *Ctx) {
	rule := c.R.Rule("R4", "timeout staleness tables, exhaustive: handleTimeout ignores a timeout iff height differs, or round is older, or same round and step older; timeoutRoutine replaces the pending timeout iff the new one is lexicographically newer (same height+round: unless pending.Step>0 and new.Step<=pending.Step); CompareHRS is the lexicographic three-way compare; handleTimeout dispatches NewHeight->enterNewRound(h,0), Propose->enterPrevote, PrevoteWait->enterPrecommit, PrecommitWait->enterNewRound(h,r+1)", 139)
	effect := func(ins ssa.Instruction) string {
		if ci, ok := ins.(ssa.CallInstruction); ok {
			n := cfgx.CalleeName(ci)
			if strings.HasPrefix(n, "gemmill/modules/go-log.") || strings.HasPrefix(n, "go.uber.org/zap.") {
				return ""
			}
			if callee := ci.Common().StaticCallee(); callee != nil && dtable.IsPurePredicate(callee) {
				return "" // an extracted condition: evaluated by the table interpreter, not an effect
			}
			return "EFFECT"
		}
		return ""
	}
	if f := c.Anchor(rule, csT+".handleTimeout"); f != nil {
		atoms := []dtable.Atom{
			{Name: "H", Kind: dtable.Cmp, X: "a1.Height", Y: "a2.Height"},
			{Name: "R", Kind: dtable.Cmp, X: "a1.Round", Y: "a2.Round"},
			{Name: "S", Kind: dtable.Cmp, X: "a1.Step", Y: "a2.Step"},
		}
		tab, err := dtable.Extract(dtable.Spec{Fn: f, Atoms: atoms, Event: effect, StopAfter: func(l string) bool { return l == "EFFECT" }})
		if err != nil {
			c.R.Undecided(rule, "handleTimeout:table", c.P.Pos(f.F.Pos()), fname(f), err.Error())
		} else {
			for _, row := range tab.Rows {
				st := row.State
				ignore := st["H"] != dtable.EQ || st["R"] == dtable.LT || (st["R"] == dtable.EQ && st["S"] == dtable.LT)
				got := classifyIgnore(row.Outcomes)
				want := "proceed"
				if ignore {
					want = "ignore"
				}
				c.R.Ob(rule, "handleTimeout:"+tab.StateString(st), got == want, c.P.Pos(f.F.Pos()), fname(f), fmt.Sprintf("spec=%s extracted=%s %v (a timeout for the current step must not be dropped, or the round never advances)", want, got, row.Outcomes))
			}
		}
		// dispatch
		for _, d := range []struct{ step, callee, round string }{
			{"1", "enterNewRound", "0"}, {"3", "enterPrevote", "a1.Round"}, {"5", "enterPrecommit", "a1.Round"}, {"7", "enterNewRound", "(a1.Round + 1)"}} {
			ok := false
			for _, ci := range f.CallsTo(cfgx.Named(csT + "." + d.callee)) {
				if f.HasGuard(ci, cfgx.Equals("(a1.Step == "+d.step+")")) && callArg(ci, 1) == "a1.Height" && callArg(ci, 2) == d.round {
					ok = true
				}
			}
			c.R.Ob(rule, "handleTimeout:dispatch-step"+d.step+"→"+d.callee, ok, c.P.Pos(f.F.Pos()), fname(f), "timeout of step "+d.step+" must call "+d.callee+"(ti.Height, "+d.round+")")
		}
	}
	if f := c.Anchor(rule, "gemmill/consensus/pbft.(*timeoutTicker).timeoutRoutine"); f != nil {
		atoms := []dtable.Atom{
			{Name: "SEL", Kind: dtable.Cmp, X: "select#0", Y: "0"},
			{Name: "H", Kind: dtable.Cmp, X: "select#2.Height", Y: "local:ti.Height"},
			{Name: "R", Kind: dtable.Cmp, X: "select#2.Round", Y: "local:ti.Round"},
			{Name: "S", Kind: dtable.Cmp, X: "select#2.Step", Y: "local:ti.Step"},
			{Name: "Z", Kind: dtable.Cmp, X: "local:ti.Step", Y: "0"},
		}
		tab, err := dtable.Extract(dtable.Spec{Fn: f, Atoms: atoms, Event: func(ins ssa.Instruction) string {
			if ci, ok := ins.(ssa.CallInstruction); ok && cfgx.CalleeName(ci) == "time.(*Timer).Reset" {
				return "RESET"
			}
			return ""
		}, StopAfter: func(l string) bool { return l == "RESET" }})
		if err != nil {
			c.R.Undecided(rule, "timeoutRoutine:table", c.P.Pos(f.F.Pos()), fname(f), err.Error())
		} else {
			for _, row := range tab.Rows {
				st := row.State
				if st["SEL"] != dtable.EQ {
					continue
				}
				var replace bool
				switch {
				case st["H"] != dtable.EQ:
					replace = st["H"] == dtable.GT
				case st["R"] != dtable.EQ:
					replace = st["R"] == dtable.GT
				default:
					replace = !(st["Z"] == dtable.GT && st["S"] != dtable.GT)
				}
				got := "mixed"
				if len(row.Outcomes) == 1 {
					if row.Outcomes[0] == "RESET" {
						got = "replace"
					} else if row.Outcomes[0] == "loop" {
						got = "keep"
					}
				}
				want := "keep"
				if replace {
					want = "replace"
				}
				c.R.Ob(rule, "timeoutRoutine:"+tab.StateString(st), got == want, c.P.Pos(f.F.Pos()), fname(f), fmt.Sprintf("spec=%s extracted=%s %v (a newer round's timeout must replace the pending one, or the node sits in that round forever)", want, got, row.Outcomes))
			}
		}
	}
	if f := c.Anchor(rule, "gemmill/consensus/pbft.CompareHRS"); f != nil {
		atoms := []dtable.Atom{
			{Name: "H", Kind: dtable.Cmp, X: "a0", Y: "a3"},
			{Name: "R", Kind: dtable.Cmp, X: "a1", Y: "a4"},
			{Name: "S", Kind: dtable.Cmp, X: "a2", Y: "a5"},
		}
		tab, err := dtable.Extract(dtable.Spec{Fn: f, Atoms: atoms})
		if err != nil {
			c.R.Undecided(rule, "CompareHRS:table", c.P.Pos(f.F.Pos()), fname(f), err.Error())
		} else {
			for _, row := range tab.Rows {
				st := row.State
				o := st["H"]
				if o == dtable.EQ {
					o = st["R"]
					if o == dtable.EQ {
						o = st["S"]
					}
				}
				want := [...]string{"return:const(-1)", "return:const(0)", "return:const(1)"}[o]
				ok := len(row.Outcomes) == 1 && row.Outcomes[0] == want
				c.R.Ob(rule, "CompareHRS:"+tab.StateString(st), ok, c.P.Pos(f.F.Pos()), fname(f), fmt.Sprintf("spec=%s extracted=%v", want, row.Outcomes))
			}
		}
	}
}

func classifyIgnore(outs []string) string {
	allIgn, allEff := true, true
	for _, o := range outs {
		if strings.Contains(o, "EFFECT") || strings.Contains(o, "noreturn") || strings.Contains(o, "panic") {
			allIgn = false
		} else {
			allEff = false
		}
	}
	switch {
	case allIgn:
		return "ignore"
	case allEff:
		return "proceed"
	}
	return "mixed"
}

func c12R5(c *Ctx) {
	rule := c.R.Rule("R5", "every wait step schedules its timeout: enterPropose, enterPrevoteWait, enterPrecommitWait call scheduleTimeout(_, height, round, <their own step>) on every path that installs their step epilogue; finalizeCommit and OnStart schedule round 0 of the (new) height", 5)
	for _, w := range []struct{ fn, step string }{{"enterPropose", "3"}, {"enterPrevoteWait", "5"}, {"enterPrecommitWait", "7"}} {
		f := c.Anchor(rule, csT+"."+w.fn)
		if f == nil {
			continue
		}
		var sched ssa.CallInstruction
		for _, ci := range f.CallsTo(cfgx.Named(csT + ".scheduleTimeout")) {
			if callArg(ci, 2) == "a1" && callArg(ci, 3) == "a2" && callArg(ci, 4) == w.step {
				sched = ci
			}
		}
		ok := sched != nil
		if ok {
			// every return that runs the epilogue (dominated by the Defer) is dominated by the scheduling
			for _, b := range f.F.Blocks {
				for _, ins := range b.Instrs {
					d, isD := ins.(*ssa.Defer)
					if !isD || !f.Live(ins) {
						continue
					}
					for _, r := range f.Returns() {
						if f.Dominates(d, r) && !f.Dominates(sched, r) {
							ok = false
						}
					}
				}
			}
		}
		c.R.Ob(rule, w.fn+":schedules-own-timeout", ok, c.P.Pos(f.F.Pos()), fname(f), "without the timeout of step "+w.step+" a silent proposer / missing votes stall the height")
	}
	if f := c.Anchor(rule, csT+".finalizeCommit"); f != nil {
		up := f.CallsTo(cfgx.Named(csT + ".updateToState"))
		sc := f.CallsTo(cfgx.Named(csT + ".scheduleRound0"))
		ok := len(up) == 1 && len(sc) == 1 && f.Dominates(up[0], sc[0])
		if ok {
			for _, r := range f.Returns() {
				if f.Dominates(up[0], r) && !f.Dominates(sc[0], r) {
					ok = false
				}
			}
		}
		c.R.Ob(rule, "finalizeCommit:scheduleRound0-after-updateToState", ok, c.P.Pos(f.F.Pos()), fname(f), "the next height must be started after every commit")
	}
	if f := c.Anchor(rule, csT+".OnStart"); f != nil {
		sc := f.CallsTo(cfgx.Named(csT + ".scheduleRound0"))
		ok := len(sc) == 1
		if ok {
			for _, r := range nilErrReturns(f) {
				if !f.Dominates(sc[0], r) {
					ok = false
				}
			}
		}
		c.R.Ob(rule, "OnStart:scheduleRound0", ok, c.P.Pos(f.F.Pos()), fname(f), "a started consensus state must schedule round 0")
	}
	if f := c.Anchor(rule, csT+".scheduleRound0"); f != nil {
		ok := false
		for _, ci := range f.CallsTo(cfgx.Named(csT + ".scheduleTimeout")) {
			if callArg(ci, 2) == "a1.Height" && callArg(ci, 3) == "0" && callArg(ci, 4) == "1" {
				ok = true
			}
		}
		c.R.Ob(rule, "scheduleRound0:NewHeight-timeout", ok, c.P.Pos(f.F.Pos()), fname(f), "round 0 is started by a NewHeight timeout for (rs.Height, 0)")
	}
}

// c12R6: a proposal carrying a proof-of-lock round must stay acceptable — once some validators are
// locked, every later proposal of the height carries POLRound >= 0; rejecting those stalls the height.
func c12R6(c *Ctx) {
	rule := c.R.Rule("R6", "proposal acceptance window: defaultSetProposal returns ErrInvalidProposalPOLRound exactly when POLRound != -1 and (POLRound < 0 or Round <= POLRound); every path that goes on to the signature check has POLRound == -1, or POLRound >= 0 and POLRound < Round", 2)
	f := c.Anchor(rule, csT+".defaultSetProposal")
	if f == nil {
		return
	}
	var rej *ssa.Return
	for _, r := range f.Returns() {
		vs := f.ReturnValues(r)
		if len(vs) == 1 && strings.HasSuffix(exprOf(vs[0]), "ErrInvalidProposalPOLRound") {
			rej = r
		}
	}
	if rej == nil {
		c.R.Undecided(rule, "reject-return", c.P.Pos(f.F.Pos()), fname(f), "no return of ErrInvalidProposalPOLRound")
		return
	}
	has := func(g map[string]bool, alts ...string) bool {
		for _, a := range alts {
			if g[a] {
				return true
			}
		}
		return false
	}
	neg := func(g map[string]bool) bool { return has(g, "(a1.POLRound < 0)", "(a1.POLRound <= -1)") }
	nonneg := func(g map[string]bool) bool { return has(g, "(a1.POLRound >= 0)", "(a1.POLRound > -1)") }
	ok, why := everyPath(f, rej, func(g map[string]bool) bool {
		return g["(a1.POLRound != -1)"] && (neg(g) || g["(a1.Round <= a1.POLRound)"])
	})
	c.R.Ob(rule, "reject⇒POLRound-out-of-window", ok, c.Pos(rej), fname(f), "a proposal is rejected for its POLRound only when POLRound is neither -1 nor in [0, Round); "+why)
	// the accept side: first instruction after the window test that is reached on the accepting paths = the VerifyBytes call
	var ver ssa.Instruction
	for _, ci := range f.Calls() {
		if ci.Common().IsInvoke() && ci.Common().Method.Name() == "VerifyBytes" {
			ver = ci
		}
	}
	if ver == nil {
		c.R.Undecided(rule, "accept-side", c.P.Pos(f.F.Pos()), fname(f), "no VerifyBytes call")
		return
	}
	ok, why = everyPath(f, ver, func(g map[string]bool) bool {
		return g["(a1.POLRound == -1)"] || (nonneg(g) && g["(a1.Round > a1.POLRound)"])
	})
	c.R.Ob(rule, "accept⇒POLRound-in-window", ok, c.Pos(ver), fname(f), "the signature check is reached exactly for POLRound == -1 or 0 <= POLRound < Round (POLRound 0 included: a polka in round 0 is the common case); "+why)
}

// c12R7: round timeouts grow with the round (a slow proposer is eventually waited for).
func c12R7(c *Ctx) {
	rule := c.R.Rule("R7", "timeouts grow with the round: TimeoutParams.Propose/Prevote/Precommit(round) evaluate, for sample configurations and rounds 0..3, to (base + delta*round) milliseconds (the arithmetic of the return expression is evaluated symbolically over the SSA tree, helpers inlined; no code is run)", 3)
	for _, m := range []string{"Propose", "Prevote", "Precommit"} {
		f := c.Anchor(rule, "gemmill/consensus/pbft.(*TimeoutParams)."+m)
		if f == nil {
			continue
		}
		rets := f.Returns()
		if len(rets) != 1 {
			c.R.Undecided(rule, m+":single-return", c.P.Pos(f.F.Pos()), fname(f), "expected one return")
			continue
		}
		v := f.ReturnValues(rets[0])[0]
		ok := true
		detail := ""
		for _, cfg := range [][2]int64{{3000, 500}, {100, 100}, {1, 7}} {
			for r := int64(0); r <= 3 && ok; r++ {
				env := dtable.Env{"a0." + m + "0": cfg[0], "a0." + m + "Delta": cfg[1], "a1": r}
				got, err := dtable.EvalInt(v, env)
				want := (cfg[0] + cfg[1]*r) * 1000000
				if err != nil {
					ok, detail = false, "not evaluable: "+err.Error()
				} else if got != want {
					ok, detail = false, fmt.Sprintf("base=%dms delta=%dms round=%d: %d ns, want %d ns", cfg[0], cfg[1], r, got, want)
				}
			}
		}
		c.R.Ob(rule, m+":(base+delta*round)ms", ok, c.Pos(rets[0]), fname(f), "the timeout must grow by delta milliseconds per round, otherwise a proposer slower than the base timeout is never waited for and the height never commits; "+detail)
	}
}

// c12R8: every lag of a peer is served by one catch-up branch of the vote gossip.
func c12R8(c *Ctx) {
	rule := c.R.Rule("R8", "vote catch-up covers every lag: in gossipVotesRoutine the same-height branch is guarded by rs.Height == prs.Height, the last-commit branch by rs.Height == prs.Height+1, and the stored-commit branch (LoadBlockCommit(prs.Height)) by rs.Height >= prs.Height+2 — a peer that is exactly two heights behind must be sent the commit of its height, nobody else will", 3)
	f := c.Anchor(rule, "gemmill/consensus/pbft.(*ConsensusReactor).gossipVotesRoutine")
	if f == nil {
		return
	}
	rs := "gemmill/consensus/pbft.(*ConsensusState).GetRoundState(a0.conS).Height"
	prs := "gemmill/consensus/pbft.(*PeerState).GetRoundState(a2).Height"
	for _, ci := range f.CallsTo(cfgx.Named("gemmill/blockchain.(*BlockStore).LoadBlockCommit")) {
		ok := f.HasGuard(ci.(ssa.Instruction), func(g string) bool {
			return g == "("+rs+" >= ("+prs+" + 2))" || g == "("+rs+" > ("+prs+" + 1))"
		})
		c.R.Ob(rule, "stored-commit-branch⊣lag>=2", ok, c.Pos(ci), fname(f), "the stored commit must be offered to every peer that is two or more heights behind; "+shorten(guardsText(f, ci.(ssa.Instruction))))
		c.R.Ob(rule, "stored-commit-branch:commit-of-peer-height", callArg(ci, 1) == prs, c.Pos(ci), fname(f), "the commit loaded must be the one of the peer's height, got "+shorten(callArg(ci, 1)))
	}
	nLast, nSame := 0, 0
	for _, ci := range f.CallsTo(cfgx.Named("gemmill/consensus/pbft.(*PeerState).PickSendVote")) {
		if strings.HasSuffix(callArg(ci, 1), ".LastCommit") && f.HasGuard(ci.(ssa.Instruction), eqs("("+rs+" == ("+prs+" + 1))")) {
			nLast++
		}
		if f.HasGuard(ci.(ssa.Instruction), eqs("("+rs+" == "+prs+")")) {
			nSame++
		}
	}
	c.R.Ob(rule, "last-commit-branch⊣lag==1", nLast >= 1, c.P.Pos(f.F.Pos()), fname(f), "a peer one height behind is sent our LastCommit precommits")
	c.R.Ob(rule, "same-height-branch⊣lag==0", nSame >= 3, c.P.Pos(f.F.Pos()), fname(f), fmt.Sprintf("%d sends under rs.Height == prs.Height", nSame))
}
