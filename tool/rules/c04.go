package rules

import (
	"fmt"
	"strings"

	"golang.org/x/tools/go/ssa"

	"annverif/cfgx"
	"annverif/core"
	"annverif/dtable"
)

func init() {
	Registry["C04"] = c04
	Metas["C04"] = Meta{Level: "other", NeedCG: true, Technique: "static analysis: who-may-write tables, edge-dominance (guard chains) on the SSA CFG of the round state machine, finite-domain decision tables of the sibling step guards",
		Explain: "Static analysis of the PBFT round state machine (gemmill/consensus/pbft/state.go). Decided on every path of the code: (R1) which functions may write the lock fields and with which class of value; (R2) a lock/relock store is edge-dominated by a +2/3 prevote majority of the SAME round for that block and, for a new lock, by block validation; (R3) every precommit for a non-nil block carries the hash of that round's majority; (R4) prevote/propose take the locked block first; (R5) unlock only under a later polka for something else; (R6) commit entry only under a +2/3 precommit majority for a non-nil block; (R7) the entry guards of the seven enterX step functions, extracted as decision tables over (height, round, step) orderings and compared with the spec template. NOT decided: which votes arrive at run time, equivalence with the protocol automaton over schedules — the check decides these structural clauses and not the behaviour.",
		Assume:  []string{"TwoThirdsMajority reports a +2/3 majority correctly (decided separately under C15/C01)", "cs.doPrevote/decideProposal/setProposal hold their defaults (checked: only assignments in non-test code)"},
	}
}

const csT = "gemmill/consensus/pbft.(*ConsensusState)"
const rsT = "gemmill/consensus/pbft.RoundState"

func tmaj(kind, round string) string {
	return "gemmill/types.(*VoteSet).TwoThirdsMajority(gemmill/consensus/pbft.(*HeightVoteSet)." + kind + "(a0.RoundState.Votes," + round + "))"
}

func hashesTo(block, hash string) string {
	return "gemmill/types.(*Block).HashesTo(a0.RoundState." + block + "," + hash + ")"
}

func c04(c *Ctx) {
	c04R1(c)
	c04R2(c)
	c04R3(c)
	c04R4(c)
	c04R5(c)
	c04R6(c)
	c04R7(c)
	walSkipRule(c, "R8")
	replayAllLinesRule(c, "R9")
	fastSyncHandoverRule(c, "R10")
	shared(c, "C15", c15R1, func(c *Ctx) { verifyCommitRule(c, "R7") })
	shared(c, "C01", func(c *Ctx) { quorumRule(c, "R1") })
	shared(c, "C16", func(c *Ctx) { valsetCacheRule(c, "R2") })
}

// classify a stored value: "nil", "zero", or the rendered expression
func valClass(v ssa.Value) string {
	if cfgx.IsNilConst(v) {
		return "nil"
	}
	if cfgx.IsZeroConst(v) {
		return "zero"
	}
	return cfgx.Expr(v)
}

func c04R1(c *Ctx) {
	rule := c.R.Rule("R1", "who-may-write the lock fields RoundState.{LockedBlock,LockedRound,LockedBlockParts}: non-nil/non-zero only in enterPrecommit; nil/0 in enterPrecommit, addVote, updateToState and the reactor's SwitchToConsensus reset", 16)
	allowedNil := map[string]bool{csT + ".enterPrecommit": true, csT + ".addVote": true, csT + ".updateToState": true,
		"gemmill/consensus/pbft.(*ConsensusReactor).SwitchToConsensus": true}
	for _, fn := range c.P.RepoFuncs() {
		f := c.Fn(fn)
		for _, fld := range []string{"LockedBlock", "LockedRound", "LockedBlockParts"} {
			for _, st := range f.FieldStores(rsT, fld) {
				name := core.Short(fname(f))
				cl := valClass(st.Val)
				ok := false
				if cl == "nil" || cl == "zero" {
					ok = allowedNil[name] || c.helperOnlyCalledFrom(fn, allowedNil)
				} else {
					ok = name == csT+".enterPrecommit" || c.helperOnlyCalledFrom(fn, map[string]bool{csT + ".enterPrecommit": true})
				}
				c.R.Ob(rule, fmt.Sprintf("store:%s.%s=%s", name, fld, shorten(cl)), ok, c.Pos(st), fname(f), "lock field written outside the reviewed writers (value class "+shorten(cl)+")")
			}
		}
		// whole-struct overwrite of RoundState would also rewrite the lock
		for _, b := range fn.Blocks {
			for _, ins := range b.Instrs {
				st, ok := ins.(*ssa.Store)
				if !ok || !f.Live(ins) {
					continue
				}
				if fa, ok := st.Addr.(*ssa.FieldAddr); ok && cfgx.IsField(fa, "gemmill/consensus/pbft.ConsensusState", "RoundState") {
					c.R.Ob(rule, "store:"+core.Short(fname(f))+".RoundState(whole)", false, c.Pos(st), fname(f), "the embedded RoundState is overwritten as a whole (would rewrite the lock)")
				}
			}
		}
	}
	// the overridable step functions keep their defaults in non-test code
	for _, fld := range []struct{ f, def string }{{"doPrevote", "defaultDoPrevote"}, {"decideProposal", "defaultDecideProposal"}, {"setProposal", "defaultSetProposal"}} {
		n := 0
		for _, fn := range c.P.RepoFuncs() {
			f := c.Fn(fn)
			for _, st := range f.FieldStores("gemmill/consensus/pbft.ConsensusState", fld.f) {
				n++
				e := cfgx.Expr(st.Val)
				ok := strings.Contains(e, csT+"."+fld.def) || strings.HasSuffix(e, "."+fld.def+"$bound")
				c.R.Ob(rule, "hook:"+fld.f+"="+shorten(e), ok, c.Pos(st), fname(f), "cs."+fld.f+" must be bound to "+fld.def)
			}
		}
		if n == 0 {
			c.R.Undecided(rule, "hook:"+fld.f, "-", "", "no assignment of cs."+fld.f+" found")
		}
	}
}

func shorten(s string) string {
	s = strings.ReplaceAll(s, "gemmill/consensus/pbft.", "")
	s = strings.ReplaceAll(s, "gemmill/types.", "")
	if len(s) > 90 {
		s = s[:87] + "..."
	}
	return s
}

func c04R2(c *Ctx) {
	rule := c.R.Rule("R2", "enterPrecommit: LockedBlock=ProposalBlock (with LockedRound=round, LockedBlockParts=ProposalBlockParts) is edge-dominated by ok of Prevotes(round).TwoThirdsMajority(), non-empty majority hash, ProposalBlock.HashesTo(hash) and ValidateBlock(ProposalBlock)==nil; the relock store LockedRound=round by ok and LockedBlock.HashesTo(hash)", 10)
	f := c.Anchor(rule, csT+".enterPrecommit")
	if f == nil {
		return
	}
	pol := tmaj("Prevotes", "a2")
	hash := pol + "#0.Hash"
	nLock := 0
	for _, st := range f.FieldStores(rsT, "LockedBlock") {
		if valClass(st.Val) == "nil" {
			continue
		}
		nLock++
		v := cfgx.Expr(st.Val)
		c.R.Ob(rule, "lock:value", v == "a0.RoundState.ProposalBlock", c.Pos(st), fname(f), "a new lock must take cs.ProposalBlock, got "+v)
		c.requireGuards(rule, "lock", f, st, []WantGuard{
			{"polka-ok(round)", cfgx.Equals(pol + "#1")},
			{"hash-nonempty", cfgx.Equals("(len(" + hash + ") != 0)")},
			{"ProposalBlock.HashesTo(polka)", cfgx.Equals(hashesTo("ProposalBlock", hash))},
			{"ValidateBlock==nil", cfgx.Equals("(gemmill/state.(*State).ValidateBlock(a0.state,a0.RoundState.ProposalBlock) == nil)")},
		})
		// companions in the same block
		for _, comp := range []struct{ fld, want string }{{"LockedRound", "a2"}, {"LockedBlockParts", "a0.RoundState.ProposalBlockParts"}} {
			ok := false
			for _, s2 := range f.FieldStores(rsT, comp.fld) {
				if f.BlockOf(s2) == f.BlockOf(st) && cfgx.Expr(s2.Val) == comp.want {
					ok = true
				}
			}
			c.R.Ob(rule, "lock:companion-"+comp.fld, ok, c.Pos(st), fname(f), comp.fld+" must be set to "+comp.want+" together with the lock")
		}
	}
	if nLock == 0 {
		c.R.Undecided(rule, "lock", c.P.Pos(f.F.Pos()), fname(f), "no lock store found in enterPrecommit")
	}
	for _, st := range f.FieldStores(rsT, "LockedRound") {
		if valClass(st.Val) == "zero" {
			continue
		}
		v := cfgx.Expr(st.Val)
		c.R.Ob(rule, "lockround:value", v == "a2", c.Pos(st), fname(f), "LockedRound must be the round whose polka was seen, got "+v)
		okPol := f.HasGuard(st, cfgx.Equals(pol+"#1"))
		okHash := f.HasGuard(st, cfgx.Equals(hashesTo("LockedBlock", hash))) || f.HasGuard(st, cfgx.Equals(hashesTo("ProposalBlock", hash)))
		c.R.Ob(rule, "lockround⊣polka-for-held-block", okPol && okHash, c.Pos(st), fname(f), "LockedRound advanced without a same-round polka for the locked/proposal block; "+guardsText(f, st))
	}
}

func c04R3(c *Ctx) {
	rule := c.R.Rule("R3", "precommit value: signAddVote is called only from enterPrecommit (precommit) and defaultDoPrevote (prevote); a precommit with non-nil hash carries Prevotes(round).TwoThirdsMajority().Hash/.PartsHeader and is edge-dominated by ok, non-empty hash and a HashesTo test of the locked or proposal block; without polka only nil is precommitted", 7)
	sites := c.AllCalls(cfgx.Named(csT + ".signAddVote"))
	for _, s := range sites {
		caller := core.Short(fname(s.Fn))
		typ := callArg(s.Call, 1)
		ok := (caller == csT+".enterPrecommit" && typ == "2") || (caller == csT+".defaultDoPrevote" && typ == "1")
		c.R.Ob(rule, "signAddVote-in:"+caller+":type="+typ, ok, c.Pos(s.Call), fname(s.Fn), "signAddVote(type) outside its step function")
	}
	f := c.Anchor(rule, csT+".enterPrecommit")
	if f == nil {
		return
	}
	pol := tmaj("Prevotes", "a2")
	hash := pol + "#0.Hash"
	n := 0
	for _, ci := range f.CallsTo(cfgx.Named(csT + ".signAddVote")) {
		n++
		h, ph := callArg(ci, 2), callArg(ci, 3)
		if h == "nil" {
			c.R.Ob(rule, "precommit-nil:header-nil", ph == "nil", c.Pos(ci), fname(f), "nil precommit must carry the zero PartSetHeader")
			continue
		}
		c.R.Ob(rule, "precommit-block:hash=polka.Hash", h == hash && ph == pol+"#0.PartsHeader", c.Pos(ci), fname(f), "precommitted hash must be the majority's: got "+shorten(h))
		okG := f.HasGuard(ci, cfgx.Equals(pol+"#1")) && f.HasGuard(ci, cfgx.Equals("(len("+hash+") != 0)")) &&
			(f.HasGuard(ci, cfgx.Equals(hashesTo("LockedBlock", hash))) || f.HasGuard(ci, cfgx.Equals(hashesTo("ProposalBlock", hash))))
		c.R.Ob(rule, "precommit-block⊣polka", okG, c.Pos(ci), fname(f), "non-nil precommit without same-round polka for a held block; "+guardsText(f, ci))
		// and the lock is in place: a lock/relock store dominates in the same block
		okL := false
		for _, st := range f.FieldStores(rsT, "LockedRound") {
			if cfgx.Expr(st.Val) == "a2" && f.Dominates(st, ci) {
				okL = true
			}
		}
		c.R.Ob(rule, "precommit-block:locked-first", okL, c.Pos(ci), fname(f), "LockedRound=round must be stored before the non-nil precommit is signed")
	}
	if n == 0 {
		c.R.Undecided(rule, "precommit", c.P.Pos(f.F.Pos()), fname(f), "no signAddVote in enterPrecommit")
	}
	// on the !ok edge no non-nil precommit: covered by the guard requirement above (every non-nil has +ok).
}

func c04R4(c *Ctx) {
	rule := c.R.Rule("R4", "locked block first: in defaultDoPrevote a prevote whose hash does not derive from cs.LockedBlock is edge-dominated by LockedBlock==nil, and a prevote for cs.ProposalBlock also by ProposalBlock!=nil and ValidateBlock==nil; in defaultDecideProposal createProposalBlock is edge-dominated by LockedBlock==nil and the locked branch proposes (LockedBlock, LockedBlockParts)", 6)
	f := c.Anchor(rule, csT+".defaultDoPrevote")
	if f != nil {
		n := 0
		for _, ci := range f.CallsTo(cfgx.Named(csT + ".signAddVote")) {
			n++
			h := callArg(ci, 2)
			switch {
			case strings.Contains(h, "a0.RoundState.LockedBlock"):
				ok := h == "gemmill/types.(*Block).Hash(a0.RoundState.LockedBlock)" && callArg(ci, 3) == "gemmill/types.(*PartSet).Header(a0.RoundState.LockedBlockParts)"
				c.R.Ob(rule, "prevote-locked:args", ok, c.Pos(ci), fname(f), "locked prevote must carry LockedBlock.Hash()/LockedBlockParts.Header()")
				c.R.Ob(rule, "prevote-locked⊣locked", f.HasGuard(ci, cfgx.Equals("(a0.RoundState.LockedBlock != nil)")), c.Pos(ci), fname(f), guardsText(f, ci))
			case h == "nil":
				c.R.Ob(rule, "prevote-nil⊣unlocked", f.HasGuard(ci, cfgx.Equals("(a0.RoundState.LockedBlock == nil)")), c.Pos(ci), fname(f), "while locked the validator must prevote the locked block, not nil; "+guardsText(f, ci))
			default:
				ok := h == "gemmill/types.(*Block).Hash(a0.RoundState.ProposalBlock)" && callArg(ci, 3) == "gemmill/types.(*PartSet).Header(a0.RoundState.ProposalBlockParts)"
				c.R.Ob(rule, "prevote-proposal:args", ok, c.Pos(ci), fname(f), "prevote hash must be ProposalBlock.Hash(), got "+shorten(h))
				c.requireGuards(rule, "prevote-proposal", f, ci, []WantGuard{
					{"unlocked", cfgx.Equals("(a0.RoundState.LockedBlock == nil)")},
					{"proposal-present", cfgx.Equals("(a0.RoundState.ProposalBlock != nil)")},
					{"ValidateBlock==nil", cfgx.Equals("(gemmill/state.(*State).ValidateBlock(a0.state,a0.RoundState.ProposalBlock) == nil)")},
				})
			}
		}
		if n < 3 {
			c.R.Undecided(rule, "prevote", c.P.Pos(f.F.Pos()), fname(f), "expected the locked / nil / proposal prevote sites")
		}
		// no write to the lock or proposal fields between guard and use
		for _, fld := range []string{"LockedBlock", "ProposalBlock"} {
			c.R.Ob(rule, "defaultDoPrevote:no-store-"+fld, len(f.FieldStores(rsT, fld)) == 0, c.P.Pos(f.F.Pos()), fname(f), "guards are matched on access paths; the function must not reassign "+fld)
		}
	}
	g := c.Anchor(rule, csT+".defaultDecideProposal")
	if g != nil {
		cr := g.CallsTo(cfgx.Named(csT + ".createProposalBlock"))
		if len(cr) == 0 {
			c.R.Undecided(rule, "propose:createProposalBlock", c.P.Pos(g.F.Pos()), fname(g), "call not found")
		}
		for _, ci := range cr {
			c.R.Ob(rule, "propose:create⊣unlocked", g.HasGuard(ci, cfgx.Equals("(a0.RoundState.LockedBlock == nil)")), c.Pos(ci), fname(g), "a locked proposer must re-propose the locked block; "+guardsText(g, ci))
		}
		// the proposal's parts header derives from LockedBlockParts or the created block
		for _, ci := range g.CallsTo(cfgx.Named("gemmill/types.NewProposal")) {
			a := callArg(ci, 2)
			ok := strings.Contains(a, "a0.RoundState.LockedBlockParts") && strings.Contains(a, "createProposalBlock(a0)#1")
			c.R.Ob(rule, "propose:parts-from-locked-or-new", ok, c.Pos(ci), fname(g), "proposal parts header must be phi(LockedBlockParts | created parts): "+shorten(a))
			pr := callArg(ci, 3)
			c.R.Ob(rule, "propose:POLInfo", strings.Contains(pr, "(*HeightVoteSet).POLInfo(a0.RoundState.Votes)#0"), c.Pos(ci), fname(g), "proposal must carry the POL round from Votes.POLInfo()")
		}
	}
}

func c04R5(c *Ctx) {
	rule := c.R.Rule("R5", "unlock only on a later polka for something else: nil stores to the lock in addVote are edge-dominated by LockedBlock!=nil, LockedRound<vote.Round, vote.Round<=cs.Round, ok of Prevotes(vote.Round).TwoThirdsMajority() and !LockedBlock.HashesTo(hash); in enterPrecommit by ok of Prevotes(round) and (empty hash, or neither the locked nor the proposal block matches)", 6)
	f := c.Anchor(rule, csT+".addVote")
	if f != nil {
		pol := tmaj("Prevotes", "a1.Round")
		n := 0
		for _, fld := range []string{"LockedBlock", "LockedRound", "LockedBlockParts"} {
			for _, st := range f.FieldStores(rsT, fld) {
				n++
				c.requireGuards(rule, "addVote:unlock-"+fld, f, st, []WantGuard{
					{"locked", cfgx.Equals("(a0.RoundState.LockedBlock != nil)")},
					{"LockedRound<vote.Round", cfgx.Equals("(a0.RoundState.LockedRound < a1.Round)")},
					{"vote.Round<=cs.Round", cfgx.Equals("(a1.Round <= a0.RoundState.Round)")},
					{"polka-ok(vote.Round)", cfgx.Equals(pol + "#1")},
					{"not-for-locked-block", cfgx.Equals("!" + hashesTo("LockedBlock", pol+"#0.Hash"))},
					{"vote-added", cfgx.Equals("gemmill/consensus/pbft.(*HeightVoteSet).AddVote(a0.RoundState.Votes,a1,a2)#0")},
					{"is-prevote", cfgx.Equals("(a1.Type == 1)")},
				})
			}
		}
		if n < 3 {
			c.R.Undecided(rule, "addVote:unlock", c.P.Pos(f.F.Pos()), fname(f), "expected the three unlock stores")
		}
	}
	g := c.Anchor(rule, csT+".enterPrecommit")
	if g != nil {
		pol := tmaj("Prevotes", "a2")
		hash := pol + "#0.Hash"
		for _, st := range g.FieldStores(rsT, "LockedBlock") {
			if valClass(st.Val) != "nil" {
				continue
			}
			okPol := g.HasGuard(st, cfgx.Equals(pol+"#1"))
			nilPolka := g.HasGuard(st, cfgx.Equals("(len("+hash+") == 0)"))
			other := g.HasGuard(st, cfgx.Equals("!"+hashesTo("LockedBlock", hash))) && g.HasGuard(st, cfgx.Equals("!"+hashesTo("ProposalBlock", hash)))
			c.R.Ob(rule, "enterPrecommit:unlock⊣polka-for-something-else", okPol && (nilPolka || other), c.Pos(st), fname(g), "unlock needs this round's polka for nil or for a block we do not hold; "+guardsText(g, st))
		}
	}
}

func c04R6(c *Ctx) {
	rule := c.R.Rule("R6", "commit entry: enterCommit is called only from addVote, edge-dominated by ok of Precommits(vote.Round).TwoThirdsMajority() and a non-empty hash, with commitRound=vote.Round; finalizeCommit only from tryFinalizeCommit under ok, non-empty hash and ProposalBlock.HashesTo(hash) of Precommits(CommitRound); tryFinalizeCommit only from enterCommit's epilogue and addProposalBlockPart", 6)
	for _, s := range c.AllCalls(cfgx.Named(csT + ".enterCommit")) {
		caller := core.Short(fname(s.Fn))
		if caller != csT+".addVote" {
			c.R.Ob(rule, "enterCommit-from:"+caller, false, c.Pos(s.Call), fname(s.Fn), "enterCommit may only be entered from addVote's precommit branch")
			continue
		}
		pol := tmaj("Precommits", "a1.Round")
		c.R.Ob(rule, "enterCommit:round=vote.Round", callArg(s.Call, 2) == "a1.Round", c.Pos(s.Call), fname(s.Fn), "commit round must be the round of the majority")
		c.requireGuards(rule, "enterCommit", s.Fn, s.Call, []WantGuard{
			{"precommit-maj-ok", cfgx.Equals(pol + "#1")},
			{"hash-nonempty", cfgx.Equals("(len(" + pol + "#0.Hash) != 0)")},
			{"vote-added", cfgx.Equals("gemmill/consensus/pbft.(*HeightVoteSet).AddVote(a0.RoundState.Votes,a1,a2)#0")},
			{"is-precommit", cfgx.Equals("(a1.Type == 2)")},
		})
	}
	for _, s := range c.AllCalls(cfgx.Named(csT + ".finalizeCommit")) {
		caller := core.Short(fname(s.Fn))
		if caller != csT+".tryFinalizeCommit" {
			c.R.Ob(rule, "finalizeCommit-from:"+caller, false, c.Pos(s.Call), fname(s.Fn), "finalizeCommit may only be entered from tryFinalizeCommit")
			continue
		}
		pol := tmaj("Precommits", "a0.RoundState.CommitRound")
		c.requireGuards(rule, "finalizeCommit", s.Fn, s.Call, []WantGuard{
			{"precommit-maj-ok", cfgx.Equals(pol + "#1")},
			{"hash-nonempty", cfgx.Equals("(len(" + pol + "#0.Hash) != 0)")},
			{"ProposalBlock.HashesTo", cfgx.Equals(hashesTo("ProposalBlock", pol+"#0.Hash"))},
		})
	}
	for _, s := range c.AllCalls(cfgx.Named(csT + ".tryFinalizeCommit")) {
		caller := core.Short(fname(s.Fn))
		ok := caller == csT+".enterCommit$1" || caller == csT+".addProposalBlockPart"
		c.R.Ob(rule, "tryFinalizeCommit-from:"+caller, ok, c.Pos(s.Call), fname(s.Fn), "unexpected caller of tryFinalizeCommit")
	}
	// CommitRound is written only by enterCommit's epilogue (= its commitRound parameter) and reset to -1
	for _, fn := range c.P.RepoFuncs() {
		f := c.Fn(fn)
		for _, st := range f.FieldStores(rsT, "CommitRound") {
			name := core.Short(fname(f))
			v := cfgx.Expr(st.Val)
			ok := (name == csT+".enterCommit$1" && v == "fv:commitRound") || (v == "-1" && (name == csT+".updateToState" || name == "gemmill/consensus/pbft.(*ConsensusReactor).SwitchToConsensus"))
			c.R.Ob(rule, "CommitRound-store:"+name+"="+v, ok, c.Pos(st), fname(f), "CommitRound may only be set to the majority's round by enterCommit, or reset to -1")
		}
	}
}

// R7: sibling step guards -----------------------------------------------------------------------
func c04R7(c *Ctx) {
	rule := c.R.Rule("R7", "sibling step guards (finite-domain decision tables over (cs.Height?height) x (round?cs.Round) x (K?cs.Step)): enterPropose/Prevote/PrevoteWait/Precommit/PrecommitWait ignore the call iff height differs, or round<cs.Round, or (round==cs.Round and K<=cs.Step), K being the step the same function passes to updateRoundStep; enterNewRound: ... or (round==cs.Round and cs.Step!=NewHeight); enterCommit: height differs or Commit<=cs.Step", 150)
	isLog := func(n string) bool {
		return strings.HasPrefix(n, "gemmill/modules/go-log.") || strings.HasPrefix(n, "dyn:g:gemmill/modules/go-common.Fmt") || strings.HasPrefix(n, "go.uber.org/zap.") || strings.HasPrefix(n, "fmt.")
	}
	effect := func(ins ssa.Instruction) string {
		switch x := ins.(type) {
		case ssa.CallInstruction:
			if isLog(cfgx.CalleeName(x)) {
				return ""
			}
			return "EFFECT"
		case *ssa.Store:
			if strings.HasPrefix(cfgx.AddrExpr(x.Addr), "local:") {
				return ""
			}
			return "EFFECT"
		case *ssa.Send, *ssa.MapUpdate:
			return "EFFECT"
		}
		return ""
	}
	type sib struct {
		name string
		kind string // "step" | "newround" | "commit"
	}
	for _, sb := range []sib{{"enterNewRound", "newround"}, {"enterPropose", "step"}, {"enterPrevote", "step"}, {"enterPrevoteWait", "step"},
		{"enterPrecommit", "step"}, {"enterPrecommitWait", "step"}, {"enterCommit", "commit"}} {
		f := c.Anchor(rule, csT+"."+sb.name)
		if f == nil {
			continue
		}
		// K = the step constant this function passes to updateRoundStep (in its body or deferred epilogue)
		K := ""
		cands := []*cfgx.Fn{f}
		for _, an := range f.F.AnonFuncs {
			cands = append(cands, c.Fn(an))
		}
		for _, cf := range cands {
			for _, ci := range cf.CallsTo(cfgx.Named(csT + ".updateRoundStep")) {
				K = callArg(ci, 2)
			}
		}
		if K == "" {
			c.R.Undecided(rule, sb.name+":K", c.P.Pos(f.F.Pos()), fname(f), "no updateRoundStep call found")
			continue
		}
		atoms := []dtable.Atom{
			{Name: "H", Kind: dtable.Cmp, X: "a0.RoundState.Height", Y: "a1"},
			{Name: "R", Kind: dtable.Cmp, X: "a2", Y: "a0.RoundState.Round"},
		}
		switch sb.kind {
		case "step", "commit":
			atoms = append(atoms, dtable.Atom{Name: "S", Kind: dtable.Cmp, X: K, Y: "a0.RoundState.Step"})
		case "newround":
			atoms = append(atoms, dtable.Atom{Name: "S", Kind: dtable.Cmp, X: "a0.RoundState.Step", Y: "1"})
		}
		tab, err := dtable.Extract(dtable.Spec{Fn: f, Atoms: atoms, Event: effect, StopAfter: func(l string) bool { return l == "EFFECT" }})
		if err != nil {
			c.R.Undecided(rule, sb.name+":table", c.P.Pos(f.F.Pos()), fname(f), err.Error())
			continue
		}
		for _, row := range tab.Rows {
			st := row.State
			var ignore bool
			switch sb.kind {
			case "step":
				ignore = st["H"] != dtable.EQ || st["R"] == dtable.LT || (st["R"] == dtable.EQ && st["S"] != dtable.GT)
			case "newround":
				ignore = st["H"] != dtable.EQ || st["R"] == dtable.LT || (st["R"] == dtable.EQ && st["S"] != dtable.EQ)
			case "commit":
				ignore = st["H"] != dtable.EQ || st["S"] != dtable.GT
			}
			got := "mixed"
			allIgn, allEff := true, true
			for _, o := range row.Outcomes {
				if strings.Contains(o, "EFFECT") || strings.Contains(o, "noreturn") {
					allIgn = false
				} else {
					allEff = false
				}
			}
			if allIgn {
				got = "ignore"
			} else if allEff {
				got = "proceed"
			}
			want := "proceed"
			if ignore {
				want = "ignore"
			}
			c.R.Ob(rule, sb.name+"(K="+K+"):"+tab.StateString(st), got == want, c.P.Pos(f.F.Pos()), fname(f), fmt.Sprintf("spec=%s extracted=%s %v", want, got, row.Outcomes))
		}
	}
}
