// Package rules: per-property rule instances. Slots are filled from this repository, each with a reason.
package rules

import (
	"fmt"
	"sort"
	"strings"

	"golang.org/x/tools/go/ssa"

	"annverif/cfgx"
	"annverif/core"
	"annverif/equiv"
	"annverif/locks"
)

// Ctx is what a rule set gets: the program, helpers, and the report to fill.
type Ctx struct {
	P    *core.Prog
	NR   *cfgx.NoRet
	R    *core.Report
	Tier string
	fns  map[*ssa.Function]*cfgx.Fn
	eq   *equiv.Checker
	lk   *locks.Analysis
}

func NewCtx(p *core.Prog, r *core.Report, tier string) *Ctx {
	return &Ctx{P: p, NR: cfgx.ComputeNoRet(p), R: r, Tier: tier, fns: map[*ssa.Function]*cfgx.Fn{}}
}

// Fn returns the pruned CFG of a function (cached).
func (c *Ctx) Fn(fn *ssa.Function) *cfgx.Fn {
	if f, ok := c.fns[fn]; ok {
		return f
	}
	f := cfgx.New(fn, c.NR)
	c.fns[fn] = f
	return f
}

// Anchor resolves a function by module-relative name; on failure records an unresolved-anchor
// obligation under the rule and returns nil.
func (c *Ctx) Anchor(rule, rel string) *cfgx.Fn {
	fn := c.P.F(rel)
	if fn == nil || fn.Blocks == nil {
		c.R.Missing(rule, rel)
		return nil
	}
	return c.Fn(fn)
}

// Pos of an instruction; falls back to the function position.
func (c *Ctx) Pos(ins ssa.Instruction) string {
	if ins == nil {
		return "-"
	}
	if ins.Pos().IsValid() {
		return c.P.Pos(ins.Pos())
	}
	// walk operands for a position
	if v, ok := ins.(ssa.Value); ok {
		_ = v
	}
	if ins.Parent() != nil {
		return c.P.Pos(ins.Parent().Pos()) + "(fn)"
	}
	return "-"
}

func fname(f *cfgx.Fn) string { return core.FuncName(f.F) }

// guardsText is used in details so that a report is diagnosable from its text.
func guardsText(f *cfgx.Fn, ins ssa.Instruction) string {
	gs := f.GuardStrings(ins)
	if len(gs) == 0 {
		return "no dominating guard"
	}
	return "guards: " + strings.Join(gs, " ; ")
}

// requireGuards: obligation per (site, wanted guard). Each wanted guard is a name + matcher over the
// normalised guard strings.
type WantGuard struct {
	Name  string
	Match func(string) bool
}

func (c *Ctx) requireGuards(rule, construct string, f *cfgx.Fn, site ssa.Instruction, wants []WantGuard) {
	for _, w := range wants {
		ok := f.HasGuard(site, w.Match)
		c.R.Ob(rule, construct+"⊣"+w.Name, ok, c.Pos(site), fname(f),
			fmt.Sprintf("site must be edge-dominated by guard %q; %s", w.Name, guardsText(f, site)))
	}
}

// sortedKeys helper
func sortedKeys(m map[string]bool) []string {
	var out []string
	for k := range m {
		out = append(out, k)
	}
	sort.Strings(out)
	return out
}

// callArg renders the i-th argument of a call.
func callArg(ci ssa.CallInstruction, i int) string {
	a := ci.Common().Args
	if i < len(a) {
		return cfgx.Expr(a[i])
	}
	return "<none>"
}

// All registered rule sets.
var Registry = map[string]func(*Ctx){}

// Meta data per property: level and the decided clause in words.
type Meta struct {
	Technique string
	Level     string
	Explain   string
	Assume    []string
	NeedCG    bool
	Ref       bool // needs the go-ethereum reference packages
}

var Metas = map[string]Meta{}

// Site is a call site somewhere in the repository.
type Site struct {
	Fn   *cfgx.Fn
	Call ssa.CallInstruction
	Name string // callee name
}

// AllCalls scans every function of the module (live instructions only) for calls whose resolved
// callee name satisfies pred. For interface invocations and dynamic calls the VTA callees are also
// offered to pred when a call graph is loaded.
func (c *Ctx) AllCalls(pred func(name string) bool) []Site {
	var out []Site
	for _, fn := range c.P.RepoFuncs() {
		f := c.Fn(fn)
		for _, ci := range f.Calls() {
			n := cfgx.CalleeName(ci)
			if pred(n) {
				out = append(out, Site{f, ci, n})
				continue
			}
			if c.P.CG != nil && ci.Common().StaticCallee() == nil {
				for _, callee := range c.P.Callees(ci) {
					cn := core.Short(core.FuncName(callee))
					if cn != "" && pred(cn) {
						out = append(out, Site{f, ci, cn})
						break
					}
				}
			}
		}
	}
	return out
}

// inPkgs reports whether the function's canonical short name lies under one of the prefixes.
func inPkgs(name string, prefixes ...string) bool {
	s := core.Short(name)
	for _, p := range prefixes {
		if strings.HasPrefix(s, p) {
			return true
		}
	}
	return false
}

// uses: does value v (transitively through its expression tree) mention the rendered fragment?
func mentions(v ssa.Value, frag string) bool { return strings.Contains(cfgx.Expr(v), frag) }

// nilErrReturns lists the returns of f whose last result is the nil constant (success returns of an
// error-returning function), resolving defer-spilled results.
func nilErrReturns(f *cfgx.Fn) []*ssa.Return {
	var out []*ssa.Return
	for _, r := range f.Returns() {
		if len(r.Results) == 0 {
			continue
		}
		vals := f.ReturnValues(r)
		if cfgx.IsNilConst(vals[len(vals)-1]) {
			out = append(out, r)
		}
	}
	return out
}

// everyPath checks that every acyclic path to `site` satisfies pred over its set of edge guards.
// Returns ok and a description of a counterexample path.
func everyPath(f *cfgx.Fn, site ssa.Instruction, pred func(g map[string]bool) bool) (bool, string) {
	paths, ok := f.PathGuards(site, 5000)
	if !ok {
		return false, "too many paths (undecided)"
	}
	if len(paths) == 0 {
		return false, "site unreachable"
	}
	for _, p := range paths {
		if !pred(p) {
			var gs []string
			for k := range p {
				gs = append(gs, k)
			}
			sort.Strings(gs)
			// keep only one orientation of each comparison for readability
			return false, "counterexample path guards: " + strings.Join(gs, " ; ")
		}
	}
	return true, fmt.Sprintf("%d paths", len(paths))
}

// small aliases used by table-style rules
func cfgxCallee(ci ssa.CallInstruction) string { return cfgx.CalleeName(ci) }
func eqs(s string) func(string) bool           { return cfgx.Equals(s) }
func exprOf(v ssa.Value) string                { return cfgx.Expr(v) }

// helperOnlyCalledFrom: fn is an unexported function/method of the repository all of whose callers (in the
// call graph, synthetic wrappers skipped) are in the allowed set — a helper extracted from a reviewed writer
// writes on that writer's behalf.
func (c *Ctx) helperOnlyCalledFrom(fn *ssa.Function, allowed map[string]bool) bool {
	if fn == nil || c.P.CG == nil || fn.Parent() != nil {
		return false
	}
	n := fn.Name()
	if n == "" || !(n[0] >= 'a' && n[0] <= 'z') {
		return false
	}
	callers := 0
	for _, e := range c.P.Callers(fn) {
		if e.Caller.Func.Synthetic != "" {
			continue
		}
		if _, isGo := e.Site.(*ssa.Go); isGo {
			return false
		}
		callers++
		if !allowed[core.Short(core.FuncName(e.Caller.Func))] {
			return false
		}
	}
	return callers > 0
}
