package rules

import (
	"fmt"
	"strings"

	"golang.org/x/tools/go/ssa"

	"annverif/cfgx"
	"annverif/core"
)

func init() {
	Registry["C15"] = c15
	Metas["C15"] = Meta{Level: "other", NeedCG: true,
		Technique: "static analysis: edge-dominance of the vote checks before counting, single-writer/once-only typestate of maj23, counted-once tally sites, exhaustive threshold evaluation, effect ordering around the quorum crossing",
		Explain:   "Static analysis of gemmill/types/vote_set.go and VerifyCommit. Decided on every path: (R1) addVerifiedVote is reached only after height/round/type equality, validator lookup by the vote's own index, address equality with that validator, duplicate miss and signature verification under that validator's key, and receives that validator's power; (R2) maj23 has a single store, under maj23==nil and the quorum crossing, and the crossing compares the sum before and after the vote was added; the majority block's votes are copied unconditionally into the canonical array; (R3) power is counted once per validator; (R4) the threshold predicate (shared with C01-R1); (R5) conflicting votes are surfaced as ErrVoteConflictingVotes; (R6) MakeCommit requires a majority and copies the canonical array; VerifyCommit's check list (shared with C02-R4). (R9) a per-block tally is inserted only when absent and SetRound creates every round up to the target. NOT decided: equivalence with the definition for every vote stream.",
		Assume:    []string{"signatures are deterministic (the code's own NOTE)", "PubKey.VerifyBytes is sound"},
	}
}

func c15(c *Ctx) {
	c15R1(c)
	c15R2(c)
	tallyRule(c, "R3")
	quorumRule(c, "R4")
	c15R5(c)
	c15R6(c)
	verifyCommitRule(c, "R7")
	valsetCacheRule(c, "R8")
	c15R9(c)
	c15R10(c)
}

const gbi = "gemmill/types.(*ValidatorSet).GetByIndex(a0.valSet,a1.ValidatorIndex)"

func c15R1(c *Ctx) {
	rule := c.R.Rule("R1", "checks before counting: in VoteSet.addVote the call addVerifiedVote(vote, key, power) is edge-dominated by (Height,Round,Type) equality with the set, a non-nil validator looked up by vote.ValidatorIndex, address equality with that validator, a duplicate-lookup miss, and VerifyBytes(SignBytes(chainID, vote), vote.Signature) under that validator's key; power is that validator's VotingPower", 9)
	f := c.Anchor(rule, vsT+".addVote")
	if f == nil {
		return
	}
	calls := f.CallsTo(cfgx.Named(vsT + ".addVerifiedVote"))
	if len(calls) != 1 {
		c.R.Undecided(rule, "addVerifiedVote:site", c.P.Pos(f.F.Pos()), fname(f), fmt.Sprintf("expected one call, found %d", len(calls)))
		return
	}
	ci := calls[0]
	key := "gemmill/types.(BlockID).Key(a1.BlockID)"
	c.requireGuards(rule, "count", f, ci, []WantGuard{
		{"height", cfgx.Equals("(a1.Height == a0.height)")},
		{"round", cfgx.Equals("(a1.Round == a0.round)")},
		{"type", cfgx.Equals("(a1.Type == a0.type_)")},
		{"validator-by-index-non-nil", cfgx.Equals("(" + gbi + "#1 != nil)")},
		{"address-matches-index", cfgx.Equals("bytes.Equal(a1.ValidatorAddress," + gbi + "#0)")},
		{"not-duplicate", cfgx.Equals("!gemmill/types.(*VoteSet).getVote(a0,a1.ValidatorIndex," + key + ")#1")},
		{"signature-by-that-validator", cfgx.Equals(gbi + "#1.PubKey.VerifyBytes(gemmill/types.SignBytes(a0.chainID,a1),a1.Signature)")},
	})
	c.R.Ob(rule, "count:power=that-validator", callArg(ci, 3) == gbi+"#1.VotingPower", c.Pos(ci), fname(f), "power passed: "+shorten(callArg(ci, 3)))
	c.R.Ob(rule, "count:args", callArg(ci, 1) == "a1" && callArg(ci, 2) == key, c.Pos(ci), fname(f), "vote and block key passed to addVerifiedVote")
	// addVerifiedVote has no other caller
	for _, s := range c.AllCalls(cfgx.Named(vsT + ".addVerifiedVote")) {
		c.R.Ob(rule, "addVerifiedVote-caller:"+shorten(fname(s.Fn)), fname(s.Fn) == fname(f), c.Pos(s.Call), fname(s.Fn), "verified-vote insertion may only be reached through addVote")
	}
	// the slot written is the vote's own index, in both per-set and per-block arrays
	for _, name := range []string{vsT + ".addVerifiedVote", "gemmill/types.(*blockVotes).addVerifiedVote"} {
		g := c.Anchor(rule, name)
		if g == nil {
			continue
		}
		n := 0
		for _, st := range g.Stores(func(a string) bool { return strings.HasPrefix(a, "a0.votes[") }) {
			if cfgx.Expr(st.Val) != "a1" {
				continue
			}
			n++
			c.R.Ob(rule, shorten(name)+":slot=vote.ValidatorIndex", cfgx.AddrExpr(st.Addr) == "a0.votes[a1.ValidatorIndex]", c.Pos(st), fname(g), "vote stored into "+cfgx.AddrExpr(st.Addr))
		}
		if n == 0 {
			c.R.Undecided(rule, shorten(name)+":slot", c.P.Pos(g.F.Pos()), fname(g), "no store of the vote into votes[]")
		}
	}
}

func c15R2(c *Ctx) {
	rule := c.R.Rule("R2", "maj23 is written once: single store (in addVerifiedVote) under maj23==nil and the crossing; the 'after' sum is read after blockVotes.addVerifiedVote and the 'before' sum before it; the copy of the majority block's votes into the canonical array is conditioned only on the source slot being non-nil", 5)
	n := 0
	for _, fn := range c.P.RepoFuncs() {
		f := c.Fn(fn)
		for _, st := range f.FieldStores("gemmill/types.VoteSet", "maj23") {
			n++
			ok := core.Short(fname(f)) == vsT+".addVerifiedVote" || (cfgx.IsNilConst(st.Val) && strings.HasSuffix(fname(f), ".NewVoteSet"))
			c.R.Ob(rule, "maj23-writer:"+shorten(fname(f)), ok, c.Pos(st), fname(f), "maj23 may be written only by addVerifiedVote")
		}
	}
	f := c.Anchor(rule, vsT+".addVerifiedVote")
	if f == nil {
		return
	}
	sts := f.FieldStores("gemmill/types.VoteSet", "maj23")
	if len(sts) != 1 {
		c.R.Undecided(rule, "maj23-store", c.P.Pos(f.F.Pos()), fname(f), fmt.Sprintf("expected exactly one store, found %d", len(sts)))
		return
	}
	st := sts[0]
	c.R.Ob(rule, "maj23-store⊣maj23==nil", f.HasGuard(st, cfgx.Equals("(a0.maj23 == nil)")), c.Pos(st), fname(f), "a reported majority must never change; "+guardsText(f, st))
	c.R.Ob(rule, "maj23-store:value=vote.BlockID", cfgx.Expr(st.Val) == "a1.BlockID" || strings.HasSuffix(cfgx.Expr(st.Val), "maj23BlockID"), c.Pos(st), fname(f), "value "+cfgx.Expr(st.Val))
	// ordering of the sum reads around the per-block insertion
	adds := f.CallsTo(cfgx.Named("gemmill/types.(*blockVotes).addVerifiedVote"))
	if len(adds) != 1 {
		c.R.Undecided(rule, "blockVotes.add:site", c.P.Pos(f.F.Pos()), fname(f), "expected one call")
		return
	}
	add := adds[0]
	c.R.Ob(rule, "blockVotes.add≺maj23-store", f.Dominates(add, st), c.Pos(add), fname(f), "the vote must be in the per-block tally before the majority is declared")
	before, after := false, false
	for _, g := range f.Guards(st) {
		cmp, ok := g.Cond.(*ssa.BinOp)
		if !ok {
			continue
		}
		cl, _ := classifyQuorum(cmp)
		if cl != "P" && cl != "notP" {
			continue
		}
		isP := (cl == "P") == g.Pol
		// the tally leaf is a load of .sum: find the load instruction
		var ld ssa.Instruction
		for _, op := range []ssa.Value{cmp.X, cmp.Y} {
			if u, ok := op.(*ssa.UnOp); ok && strings.HasSuffix(cfgx.Expr(u), ".sum") {
				ld = u
			}
		}
		if ld == nil {
			continue
		}
		if isP && f.Dominates(add, ld) {
			after = true
		}
		if !isP && f.Dominates(ld, add) {
			before = true
		}
	}
	c.R.Ob(rule, "crossing:sum-after-add≥quorum", after, c.Pos(st), fname(f), "the quorum test must read the block's sum after this vote was added")
	c.R.Ob(rule, "crossing:sum-before-add<quorum", before, c.Pos(st), fname(f), "the 'first crossing' test must read the block's sum before this vote was added")
	// the copy loop
	n2 := 0
	for _, cp := range f.Stores(func(a string) bool { return strings.HasPrefix(a, "a0.votes[") }) {
		if !f.Dominates(st, cp) {
			continue
		}
		n2++
		extra := []string{}
		for _, g := range f.Guards(cp) {
			if contains(f.Guards(st), g) {
				continue
			}
			s := cfgx.GuardString(g)
			switch {
			case strings.Contains(s, "< len("): // loop bound
			case strings.HasPrefix(s, "+(") && strings.HasSuffix(s, " != nil)") && strings.Contains(s, ".votes[") && !strings.HasPrefix(s, "+(a0.votes["): // source slot non-nil
			default:
				extra = append(extra, s)
			}
		}
		c.R.Ob(rule, "maj23-copy:unconditional", len(extra) == 0, c.Pos(cp), fname(f), "copy of the majority's votes is narrowed by extra condition(s): "+strings.Join(extra, " ; "))
	}
	if n2 == 0 {
		c.R.Undecided(rule, "maj23-copy", c.Pos(st), fname(f), "no copy of the majority block's votes after maj23 is set")
	}
}

func contains(gs []cfgx.Guard, g cfgx.Guard) bool {
	for _, x := range gs {
		if x.If == g.If && x.Pol == g.Pol {
			return true
		}
	}
	return false
}

func c15R5(c *Ctx) {
	rule := c.R.Rule("R5", "conflicting votes surface: every return of VoteSet.addVote reached with a non-nil conflicting vote returns a non-nil error (ErrVoteConflictingVotes); a nil error after addVerifiedVote is returned only under conflicting==nil", 2)
	f := c.Anchor(rule, vsT+".addVote")
	if f == nil {
		return
	}
	calls := f.CallsTo(cfgx.Named(vsT + ".addVerifiedVote"))
	if len(calls) != 1 {
		return
	}
	conf := cfgx.Expr(calls[0].(*ssa.Call)) + "#1"
	for _, r := range f.Returns() {
		if !f.Dominates(calls[0], r) {
			continue
		}
		vals := f.ReturnValues(r)
		errv := vals[len(vals)-1]
		if cfgx.IsNilConst(errv) {
			c.R.Ob(rule, "nil-error⊣no-conflict", f.HasGuard(r, cfgx.Equals("("+conf+" == nil)")), c.Pos(r), fname(f), guardsText(f, r))
		} else {
			ok := f.HasGuard(r, cfgx.Equals("("+conf+" != nil)"))
			t := errv.Type().String()
			if mi, isMI := errv.(*ssa.MakeInterface); isMI {
				t = mi.X.Type().String()
			}
			c.R.Ob(rule, "conflict-error-type", ok && strings.HasSuffix(t, "ErrVoteConflictingVotes"), c.Pos(r), fname(f), "error returned on conflict has type "+t)
		}
	}
}

func c15R6(c *Ctx) {
	rule := c.R.Rule("R6", "MakeCommit is gated: the commit is built only under type==precommit and maj23!=nil (sanity panics), BlockID=*maj23, Precommits = a copy of the canonical votes array", 4)
	f := c.Anchor(rule, vsT+".MakeCommit")
	if f == nil {
		return
	}
	for _, r := range f.Returns() {
		c.requireGuards(rule, "MakeCommit:return", f, r, []WantGuard{
			{"is-precommit-set", cfgx.Equals("(a0.type_ == 2)")},
			{"has-majority", cfgx.Equals("(a0.maj23 != nil)")},
		})
	}
	okB, okP := false, false
	for _, st := range f.Stores(func(a string) bool { return strings.HasSuffix(a, ".BlockID") }) {
		if cfgx.Expr(st.Val) == "a0.maj23" {
			okB = true
		}
	}
	copyIn := func(g *cfgx.Fn) bool {
		for _, ci := range g.CallsTo(cfgx.Named("builtin:copy")) {
			if callArg(ci, 1) == "a0.votes" && strings.HasPrefix(callArg(ci, 0), "make([]*gemmill/types.Vote,len(a0.votes))") {
				return true
			}
		}
		return false
	}
	okP = copyIn(f)
	if !okP {
		// the copy may live in a helper method called on the same receiver
		for _, ci := range f.Calls() {
			if callee := ci.Common().StaticCallee(); callee != nil && callee.Blocks != nil && len(ci.Common().Args) == 1 && callArg(ci, 0) == "a0" && copyIn(c.Fn(callee)) {
				okP = true
			}
		}
	}
	c.R.Ob(rule, "MakeCommit:BlockID=*maj23", okB, c.P.Pos(f.F.Pos()), fname(f), "commit block id must be the majority's")
	c.R.Ob(rule, "MakeCommit:Precommits=copy(votes)", okP, c.P.Pos(f.F.Pos()), fname(f), "precommits must be a full-length copy of the canonical votes")
}

// verifyCommitRule: shared by C02-R4 and C15-R7.
func verifyCommitRule(c *Ctx, id string) {
	rule := c.R.Rule(id, "VerifyCommit check list: the addition of a validator's power to the tally is edge-dominated by set-size equality, commit-height equality, per-vote non-nil, Height, Round, Type==precommit, VerifyBytes(SignBytes(chainID, precommit), sig) under the key of the validator AT THE SAME INDEX as the precommit's slot, and blockID.Equals(precommit.BlockID)", 8)
	f := c.Anchor(rule, valsT+".VerifyCommit")
	if f == nil {
		return
	}
	n := 0
	for _, t := range c.TallySites() {
		if t.Fn != f {
			continue
		}
		n++
		pre, suf := "gemmill/types.(*ValidatorSet).GetByIndex(a0,", ")#1.VotingPower"
		if !strings.HasPrefix(t.Addend, pre) || !strings.HasSuffix(t.Addend, suf) {
			c.R.Ob(rule, "tally:power-by-slot-index", false, c.Pos(t.Add), fname(f), "tallied power is not that of GetByIndex(slot): "+t.Addend)
			continue
		}
		idx := strings.TrimSuffix(strings.TrimPrefix(t.Addend, pre), suf)
		P := "a4.Precommits[" + idx + "]"
		c.R.Ob(rule, "tally:index-is-range-position", idx == "(phi(-1|loop) + 1)", c.Pos(t.Add), fname(f), "validator index used for key and power must be the precommit's slot position, got "+idx)
		c.requireGuards(rule, "tally", f, t.Add, []WantGuard{
			{"set-size", cfgx.Equals("(gemmill/types.(*ValidatorSet).Size(a0) == len(a4.Precommits))")},
			{"commit-height", cfgx.Equals("(a3 == gemmill/types.(*Commit).Height(a4))")},
			{"precommit-non-nil", cfgx.Equals("(" + P + " != nil)")},
			{"vote-height", cfgx.Equals("(" + P + ".Height == a3)")},
			{"vote-round", cfgx.Equals("(" + P + ".Round == gemmill/types.(*Commit).Round(a4))")},
			{"vote-type", cfgx.Equals("(" + P + ".Type == 2)")},
			{"signature", cfgx.Equals("gemmill/types.(*ValidatorSet).GetByIndex(a0," + idx + ")#1.PubKey.VerifyBytes(gemmill/types.SignBytes(a1," + P + ")," + P + ".Signature)")},
			{"for-this-block", cfgx.Equals("gemmill/types.(BlockID).Equals(a2," + P + ".BlockID)")},
		})
	}
	if n != 1 {
		c.R.Undecided(rule, "tally:site", c.P.Pos(f.F.Pos()), fname(f), fmt.Sprintf("expected one tally addition, found %d", n))
	}
}

// c15R9: a per-block tally, once created, is never replaced; and every round up to the current one has vote sets.
func c15R9(c *Ctx) {
	rule := c.R.Rule("R9", "tallies are never replaced: every insertion into VoteSet.votesByBlock is edge-dominated by a failed lookup of the same key (an existing entry — with the votes already counted for that block — is kept); HeightVoteSet.SetRound creates the vote sets of every round in (hvs.round, round], skipping only rounds that already exist", 4)
	n := 0
	for _, fn := range c.P.FuncsOfPkg("gemmill/types") {
		if fn.Blocks == nil || !strings.Contains(core.FuncName(fn), "(*VoteSet).") {
			continue
		}
		f := c.Fn(fn)
		for _, b := range fn.Blocks {
			for _, ins := range b.Instrs {
				mu, ok := ins.(*ssa.MapUpdate)
				if !ok || !f.Live(ins) || exprOf(mu.Map) != "a0.votesByBlock" {
					continue
				}
				n++
				want := "!a0.votesByBlock[" + exprOf(mu.Key) + "]#1"
				c.R.Ob(rule, "votesByBlock-insert:"+fn.Name()+"⊣entry-absent", f.HasGuard(ins, eqs(want)), c.Pos(ins), core.FuncName(fn),
					"an existing blockVotes entry must not be overwritten: the votes counted so far for that block would stop counting and could not be re-added (duplicates); "+shorten(guardsText(f, ins)))
			}
		}
	}
	c.R.Ob(rule, "votesByBlock-insert-sites", n >= 2, "-", "", fmt.Sprintf("%d", n))
	if f := c.Anchor(rule, "gemmill/consensus/pbft.(*HeightVoteSet).SetRound"); f != nil {
		loopVar := "phi((a0.round + 1)|(loop + 1))"
		cs := f.CallsTo(cfgx.Named("gemmill/consensus/pbft.(*HeightVoteSet).addRound"))
		ok := len(cs) == 1
		for _, ci := range cs {
			ok = ok && callArg(ci, 1) == loopVar && f.HasGuard(ci.(ssa.Instruction), eqs("("+loopVar+" <= a1)"))
		}
		c.R.Ob(rule, "SetRound:all-rounds-up-to-target", ok, c.P.Pos(f.F.Pos()), fname(f), "addRound must run for r = hvs.round+1 .. round (a round jump otherwise leaves the skipped rounds, the current one included, without vote sets: their votes go through the two-per-peer catch-up path and are dropped)")
	}
}
