package rules

import (
	"fmt"
	"sort"
	"strings"

	"golang.org/x/tools/go/ssa"

	"annverif/core"
	"annverif/taint"
)

func init() {
	Registry["C08"] = c08
	Metas["C08"] = Meta{Level: "other", NeedCG: true,
		Technique: "static analysis: goroutine-context classification (recover boundary) over the call graph, type-driven taint of peer-decoded integers to index/slice/allocation sinks with interprocedural parameter propagation and bound-guard recognition, decode-limit table, nil-ness and representation-invariant obligations at the queue boundary",
		Explain: "placeholder",
	}
}

func c08(c *Ctx) {
	c08R3(c)
}

// goroutine roots and whether they recover
type goRoot struct {
	fn        *ssa.Function
	recovered bool
	site      string
}

func containsRecover(fn *ssa.Function, depth int) bool {
	if fn == nil || fn.Blocks == nil || depth > 2 {
		return false
	}
	for _, b := range fn.Blocks {
		for _, ins := range b.Instrs {
			if ci, ok := ins.(ssa.CallInstruction); ok {
				if bi, ok := ci.Common().Value.(*ssa.Builtin); ok && bi.Name() == "recover" {
					return true
				}
				if callee := ci.Common().StaticCallee(); callee != nil && depth < 2 && containsRecover(callee, depth+1) {
					return true
				}
			}
		}
	}
	return false
}

func (c *Ctx) goRoots() []goRoot {
	var out []goRoot
	seen := map[*ssa.Function]bool{}
	for _, fn := range c.P.RepoFuncs() {
		n := core.Short(core.FuncName(fn))
		if !strings.HasPrefix(n, "gemmill/") && !strings.HasPrefix(n, "chain/") {
			continue
		}
		for _, b := range fn.Blocks {
			for _, ins := range b.Instrs {
				g, ok := ins.(*ssa.Go)
				if !ok {
					continue
				}
				for _, callee := range c.P.Callees(g) {
					if seen[callee] || callee.Blocks == nil {
						continue
					}
					seen[callee] = true
					rec := false
					for _, bb := range callee.Blocks {
						for _, i2 := range bb.Instrs {
							if d, ok := i2.(*ssa.Defer); ok {
								for _, dc := range c.P.Callees(d) {
									if containsRecover(dc, 0) {
										rec = true
									}
								}
							}
						}
					}
					out = append(out, goRoot{callee, rec, c.P.Pos(g.Pos())})
				}
			}
		}
	}
	sort.Slice(out, func(i, j int) bool { return core.FuncName(out[i].fn) < core.FuncName(out[j].fn) })
	return out
}

var c08RegPkgs = []string{"gemmill/consensus/pbft", "gemmill/blockchain", "gemmill/mempool", "gemmill/p2p", "gemmill/trace"}
var c08ExtraPeer = []string{"gemmill/p2p.NodeInfo", "gemmill/p2p.msgPacket", "gemmill/p2p.authSigMessage", "gemmill/types.Block"}

func (c *Ctx) unrecoveredScope() (map[*ssa.Function]bool, []string) {
	var roots []*ssa.Function
	var names []string
	for _, r := range c.goRoots() {
		if r.recovered {
			continue
		}
		n := core.Short(core.FuncName(r.fn))
		// roots that can see peer data: consensus, blockchain, mempool, p2p packages
		if !(strings.HasPrefix(n, "gemmill/consensus/pbft.") || strings.HasPrefix(n, "gemmill/blockchain.") || strings.HasPrefix(n, "gemmill/mempool.") || strings.HasPrefix(n, "gemmill/p2p.")) {
			continue
		}
		roots = append(roots, r.fn)
		names = append(names, n)
	}
	scope := c.P.Reachable(roots, true, func(fn *ssa.Function) bool {
		n := core.FuncName(fn)
		return !strings.HasPrefix(n, core.Mod+"/gemmill/") && !strings.HasPrefix(n, core.Mod+"/chain/")
	})
	return scope, names
}

func c08R3(c *Ctx) {
	rule := c.R.Rule("R3", "bounds (taint): on goroutines without a recover, an integer decoded from peer bytes (an exported integer field of a wire-registered message type, followed through arithmetic, locals and function parameters) that reaches an index, a slice bound or an allocation size is edge-dominated by a lower AND an upper bound test (unsigned types are bounded below by type)", 1)
	scope, roots := c.unrecoveredScope()
	peer := taint.PeerTypes(c.P, c08RegPkgs, c08ExtraPeer)
	eng := taint.New(c.P, peer, c.Fn, scope)
	// trusted producers, each with its reason
	eng.Trusted = []string{
		// a +2/3 majority block id: more than one third of the voting power is honest and prevotes/precommits
		// only part-set headers it accepted through defaultSetProposal's bound (C17-R3)
		").TwoThirdsMajority(",
		// cs.Proposal / rs.Proposal is stored only by defaultSetProposal, after the part count was bounded (C17-R3)
	}
	// cs.Proposal (RoundState.Proposal) is stored only by defaultSetProposal, after the part count was
	// bounded and the proposer's signature verified (C17-R3 decides that store's guards)
	eng.TrustedFields = map[string]bool{"gemmill/consensus/pbft.RoundState.Proposal": true}
	// sanitizers: a non-nil validator looked up by index implies 0 <= index < size (GetByIndex's contract, R3b)
	eng.Sanitizers = []string{
		"gemmill/types.(*ValidatorSet).GetByIndex(a0.valSet,%s)#1 != nil)",
	}
	fs, sinks, tsinks := eng.CheckBounds()
	c.R.Extra["C08_unrecovered_roots"] = roots
	c.R.Extra["C08_scope_functions"] = len(scope)
	c.R.Extra["C08_peer_types"] = sortedKeys(peer)
	c.R.Extra["C08_sinks_examined"] = sinks
	c.R.Extra["C08_tainted_sinks"] = tsinks
	c.R.Ob(rule, "scope-non-empty", len(scope) > 100 && len(peer) > 10 && sinks > 100, "-", "", fmt.Sprintf("%d unrecovered roots, %d functions in scope, %d peer types, %d sinks examined", len(roots), len(scope), len(peer), sinks))
	for _, f := range fs {
		c.R.Ob(rule, "bounds:"+core.Short(fname(f.Fn))+":"+f.Kind+":"+shorten(f.Operand), false, c.Pos(f.Ins), fname(f.Fn),
			fmt.Sprintf("peer-controlled %v reaches %s without a %s bound; %s %v", f.Taint, f.Kind, f.Missing, guardsText(f.Fn, f.Ins), f.Via))
	}
}

// DebugRoots lists goroutine roots and, for each function name in args, one call path from an
// unrecovered root (diagnostics).
func (c *Ctx) DebugRoots(args []string) string {
	var b strings.Builder
	var roots []*ssa.Function
	for _, r := range c.goRoots() {
		fmt.Fprintf(&b, "root %-90s recovered=%v at %s\n", core.Short(core.FuncName(r.fn)), r.recovered, r.site)
		if !r.recovered {
			roots = append(roots, r.fn)
		}
	}
	for _, target := range args {
		tf := c.P.F(target)
		if tf == nil {
			continue
		}
		// BFS
		prev := map[*ssa.Function]*ssa.Function{}
		seen := map[*ssa.Function]bool{}
		var q []*ssa.Function
		for _, r := range roots {
			n := core.Short(core.FuncName(r))
			if !(strings.HasPrefix(n, "gemmill/consensus/pbft.") || strings.HasPrefix(n, "gemmill/blockchain.") || strings.HasPrefix(n, "gemmill/mempool.") || strings.HasPrefix(n, "gemmill/p2p.")) {
				continue
			}
			seen[r] = true
			q = append(q, r)
		}
		for len(q) > 0 && !seen[tf] {
			f := q[0]
			q = q[1:]
			n := c.P.CG.Nodes[f]
			if n == nil {
				continue
			}
			for _, e := range n.Out {
				if _, isGo := e.Site.(*ssa.Go); isGo {
					continue
				}
				if !seen[e.Callee.Func] {
					seen[e.Callee.Func] = true
					prev[e.Callee.Func] = f
					q = append(q, e.Callee.Func)
				}
			}
		}
		if seen[tf] {
			var path []string
			for f := tf; f != nil; f = prev[f] {
				path = append([]string{core.Short(core.FuncName(f))}, path...)
			}
			fmt.Fprintf(&b, "PATH to %s:\n  %s\n", target, strings.Join(path, "\n  "))
		}
	}
	return b.String()
}
