package rules

import (
	"fmt"
	"go/constant"
	"go/types"
	"regexp"
	"sort"
	"strings"

	"golang.org/x/tools/go/ssa"

	"annverif/cfgx"
	"annverif/core"
	"annverif/taint"
)

func init() {
	Registry["C08"] = c08
	Metas["C08"] = Meta{Level: "other", NeedCG: true,
		Technique: "static analysis: goroutine-context classification (recover boundary) over the call graph, type-driven taint of peer-decoded integers to index/slice/allocation sinks with interprocedural parameter propagation and bound-guard recognition, decode-limit table, nil-ness and representation-invariant obligations at the queue boundary",
		Explain:   "Static analysis of the path from peer bytes to the consensus, gossip and fast-sync goroutines. Goroutine roots are classified by whether they defer a recover; obligations about crashes are placed on the unrecovered ones (receiveRoutine, gossip routines, poolRoutine, broadcastTxRoutine ...). Decided: (R1) the recover boundary — recvRoutine/sendRoutine defer _recover first, _recover -> stopForError -> onError, every Reactor.Receive is entered only below it; (R2) every network decode has a positive constant (or constant-bounded) size limit; limit 0 only in listed decoders of local records; (R3) type-driven taint: an integer field of a wire-registered message type that reaches an index, slice bound or allocation size on an unrecovered goroutine — through locals, arithmetic, function parameters and object paths — is edge-dominated by a lower and an upper bound; (R4) no explicit panic / no-return helper on such goroutines is triggered by a condition over peer-decoded values (reviewed sanity panics listed per function with a site count); (R5) pointer fields of queued consensus messages are dereferenced under the recover before the send, fast-sync blocks are dereferenced before being filed, Block.Hash and the commit accessors tolerate nil; (R6) peer-decoded BitArrays pass IsConsistent before being stored into PeerState; (R7) addRound's precondition holds at each call and a peer can open at most two catch-up rounds; (R8) in recovered code a mutex held across peer-data handling is released by defer (a recovered panic must not leave it locked); (R9) the fast-sync requester's block/peer id are read only under its mutex, so poolRoutine's sanity checks cannot be tripped by a peer hanging up. (R10) duplicate block responses are dropped before the unbuffered notification; (R11) BitArray operations reachable from unrecovered goroutines tolerate a nil operand; (R12) methods that panic on a nil receiver are not called on nil-able RoundState fields without a nil test. NOT decided: liveness ('nor stops making progress') beyond R7/R8, that rejected messages leave RoundState bit-for-bit unchanged, panics inside third-party/stdlib calls, nil-ness of interface-typed fields (Signature: VerifyBytes/Equals use comma-ok assertions, read but not checked), resource exhaustion below the decode limits.",
		Assume:    []string{"go-wire honours its limit argument (C18-R2)", "fewer than 1/3 of the voting power is Byzantine (TwoThirdsMajority results and the `+2/3 ... invalid block` panics)", "records read back from the node's own databases and WAL are well-formed (C06/C07 cover their writers)"},
	}
}

func c08(c *Ctx) {
	c08R1(c)
	c08R2(c)
	c08R3(c)
	c08R4(c)
	c08R5(c)
	c08R6(c)
	c08R7(c)
	c08R8(c)
	requesterGuardRule(c, "R9")
	requestBookkeepingRule(c, "R10")
	c08R11(c)
	c08R12(c)
	c08R13(c)
	c08R14(c)
	noSendUnderConsensusLock(c, "R15")
	shared(c, "C15", func(c *Ctx) { verifyCommitRule(c, "R7") })
	shared(c, "C18", c18R2)
	shared(c, "C20", c20R6)
}

func c08R4(c *Ctx) {
	rule := c.R.Rule("R4", "no explicit panic on peer data: on goroutines without a recover no panic() / no-return helper is edge-dominated by a condition over peer-decoded integers or lengths (sanity panics on internal invariants are listed in the reviewed table)", 1)
	scope, _ := c.unrecoveredScope()
	peer := taint.PeerTypes(c.P, c08RegPkgs, c08ExtraPeer)
	eng := taint.New(c.P, peer, c.Fn, scope)
	eng.Trusted = []string{").TwoThirdsMajority(", "gemmill/blockchain.(*BlockStore).Load", "gemmill/blockchain.(*BlockStore).GetReader("}
	fs, n := eng.CheckPanics(c.NR)
	c.R.Ob(rule, "panics-examined", n > 20, "-", "", fmt.Sprintf("%d explicit panic sites examined in scope", n))
	// distinct panics per function: two sites raising the same call with the same message (a condition split
	// into two ifs) are one reviewed panic
	perFn := map[string]int{}
	seenMsg := map[string]bool{}
	for _, f := range fs {
		msg := f.Ins.String()
		if ci, ok := f.Ins.(ssa.CallInstruction); ok {
			msg = cfgxCallee(ci) + "(" + callArg(ci, 0) + ")"
		} else if p, ok := f.Ins.(*ssa.Panic); ok {
			msg = "panic(" + exprOf(p.X) + ")"
		}
		k := core.Short(fname(f.Fn)) + "|" + msg
		if !seenMsg[k] {
			seenMsg[k] = true
			perFn[core.Short(fname(f.Fn))]++
		}
	}
	for _, f := range fs {
		fnm := core.Short(fname(f.Fn))
		key := "panic:" + fnm + ":" + shorten(f.Guard)
		rv, ok := c08PanicReviewed[fnm]
		// the review covers the listed number of sites in that function; one more is a new panic
		ok = ok && perFn[fnm] <= rv.n
		c.R.Ob(rule, key, ok, c.Pos(f.Ins), fname(f.Fn), fmt.Sprintf("explicit panic guarded by peer-controlled %v (%s); reviewed(%d site(s)): %s", f.Taint, f.Guard, rv.n, rv.why))
	}
}

type panicReview struct {
	n   int
	why string
}

// Reviewed sanity panics (function -> number of reviewed sites, reason).
var c08PanicReviewed = map[string]panicReview{
	"gemmill/blockchain.(*BlockStore).SaveBlock":                     {2, "contiguity / completeness sanity checks: fast-sync blocks are filed under requesters[block.Height] and peeked at pool.height = store height+1, consensus blocks passed ValidateBlock (Height == last+1) and their part set is complete before finalizeCommit; not selectable by a peer"},
	"gemmill/consensus/pbft.(*ConsensusState).enterPrecommit":        {1, "`+2/3 prevoted for an invalid block`: reached only when a +2/3 prevote majority names a block that fails ValidateBlock, i.e. more than 2/3 Byzantine voting power, outside the fault model"},
	"gemmill/consensus/pbft.(*ConsensusState).reconstructLastCommit": {2, "both panics (a stored precommit does not add; the stored commit lacks +2/3) concern the node's own stored seen-commit (LoadSeenCommit), written by this node after +2/3 verification"},
	"gemmill/types.voteToStep":                                       {1, "called only from PrivValidator.SignVote on votes this node built itself (the type is a constant at every signVote call site)"},
	"gemmill/consensus/pbft.(*ConsensusState).addVote":               {1, "`Unexpected vote type`: HeightVoteSet.AddVote returns added=false for an invalid type (VoteSet lookup is nil), and the switch is under `if added`"},
}

// goroutine roots and whether they recover
type goRoot struct {
	fn        *ssa.Function
	recovered bool
	site      string
}

func containsRecover(fn *ssa.Function, depth int) bool {
	if fn == nil || fn.Blocks == nil || depth > 2 {
		return false
	}
	for _, b := range fn.Blocks {
		for _, ins := range b.Instrs {
			if ci, ok := ins.(ssa.CallInstruction); ok {
				if bi, ok := ci.Common().Value.(*ssa.Builtin); ok && bi.Name() == "recover" {
					return true
				}
				if callee := ci.Common().StaticCallee(); callee != nil && depth < 2 && containsRecover(callee, depth+1) {
					return true
				}
			}
		}
	}
	return false
}

func (c *Ctx) goRoots() []goRoot {
	var out []goRoot
	seen := map[*ssa.Function]bool{}
	for _, fn := range c.P.RepoFuncs() {
		n := core.Short(core.FuncName(fn))
		if !strings.HasPrefix(n, "gemmill/") && !strings.HasPrefix(n, "chain/") {
			continue
		}
		for _, b := range fn.Blocks {
			for _, ins := range b.Instrs {
				g, ok := ins.(*ssa.Go)
				if !ok {
					continue
				}
				for _, callee := range c.P.Callees(g) {
					if seen[callee] || callee.Blocks == nil {
						continue
					}
					seen[callee] = true
					rec := false
					for _, bb := range callee.Blocks {
						for _, i2 := range bb.Instrs {
							if d, ok := i2.(*ssa.Defer); ok {
								for _, dc := range c.P.Callees(d) {
									if containsRecover(dc, 0) {
										rec = true
									}
								}
							}
						}
					}
					out = append(out, goRoot{callee, rec, c.P.Pos(g.Pos())})
				}
			}
		}
	}
	sort.Slice(out, func(i, j int) bool { return core.FuncName(out[i].fn) < core.FuncName(out[j].fn) })
	return out
}

var c08RegPkgs = []string{"gemmill/consensus/pbft", "gemmill/blockchain", "gemmill/mempool", "gemmill/p2p", "gemmill/trace"}
var c08ExtraPeer = []string{"gemmill/p2p.NodeInfo", "gemmill/p2p.msgPacket", "gemmill/p2p.authSigMessage", "gemmill/types.Block"}

func (c *Ctx) unrecoveredScope() (map[*ssa.Function]bool, []string) {
	var roots []*ssa.Function
	var names []string
	for _, r := range c.goRoots() {
		if r.recovered {
			continue
		}
		n := core.Short(core.FuncName(r.fn))
		// roots that can see peer data: consensus, blockchain, mempool, p2p packages
		if !(strings.HasPrefix(n, "gemmill/consensus/pbft.") || strings.HasPrefix(n, "gemmill/blockchain.") || strings.HasPrefix(n, "gemmill/mempool.") || strings.HasPrefix(n, "gemmill/p2p.")) {
			continue
		}
		roots = append(roots, r.fn)
		names = append(names, n)
	}
	scope := c.P.Reachable(roots, true, func(fn *ssa.Function) bool {
		n := core.FuncName(fn)
		return !strings.HasPrefix(n, core.Mod+"/gemmill/") && !strings.HasPrefix(n, core.Mod+"/chain/")
	})
	return scope, names
}

func c08R3(c *Ctx) {
	rule := c.R.Rule("R3", "bounds (taint): on goroutines without a recover, an integer decoded from peer bytes (an exported integer field of a wire-registered message type, followed through arithmetic, locals and function parameters) that reaches an index, a slice bound or an allocation size is edge-dominated by a lower AND an upper bound test (unsigned types are bounded below by type)", 1)
	scope, roots := c.unrecoveredScope()
	peer := taint.PeerTypes(c.P, c08RegPkgs, c08ExtraPeer)
	eng := taint.New(c.P, peer, c.Fn, scope)
	// trusted producers, each with its reason
	eng.Trusted = []string{
		// a +2/3 majority block id: more than one third of the voting power is honest and prevotes/precommits
		// only part-set headers it accepted through defaultSetProposal's bound (C17-R3)
		").TwoThirdsMajority(",
		// records read back from the node's own block store / state database
		"gemmill/blockchain.(*BlockStore).Load", "gemmill/blockchain.(*BlockStore).GetReader(",
		// cs.Proposal / rs.Proposal is stored only by defaultSetProposal, after the part count was bounded (C17-R3)
	}
	// cs.Proposal (RoundState.Proposal) is stored only by defaultSetProposal, after the part count was
	// bounded and the proposer's signature verified (C17-R3 decides that store's guards)
	eng.TrustedFields = map[string]bool{"gemmill/consensus/pbft.RoundState.Proposal": true}
	// sanitizers: a non-nil validator looked up by index implies 0 <= index < size (GetByIndex's contract, R3b)
	eng.Sanitizers = []string{
		"gemmill/types.(*ValidatorSet).GetByIndex(a0.valSet,%s)#1 != nil)",
	}
	fs, sinks, tsinks := eng.CheckBounds()
	c.R.Extra["C08_unrecovered_roots"] = roots
	c.R.Extra["C08_scope_functions"] = len(scope)
	c.R.Extra["C08_peer_types"] = sortedKeys(peer)
	c.R.Extra["C08_sinks_examined"] = sinks
	c.R.Extra["C08_tainted_sinks"] = tsinks
	c.R.Ob(rule, "scope-non-empty", len(scope) > 100 && len(peer) > 10 && sinks > 100, "-", "", fmt.Sprintf("%d unrecovered roots, %d functions in scope, %d peer types, %d sinks examined", len(roots), len(scope), len(peer), sinks))
	for _, f := range fs {
		c.R.Ob(rule, "bounds:"+core.Short(fname(f.Fn))+":"+reAtPos.ReplaceAllString(f.Kind, "")+":"+shorten(f.Operand), false, c.Pos(f.Ins), fname(f.Fn),
			fmt.Sprintf("peer-controlled %v reaches %s without a %s bound; %s %v", f.Taint, f.Kind, f.Missing, guardsText(f.Fn, f.Ins), f.Via))
	}
}

// DebugRoots lists goroutine roots and, for each function name in args, one call path from an
// unrecovered root (diagnostics).
func (c *Ctx) DebugRoots(args []string) string {
	var b strings.Builder
	var roots []*ssa.Function
	for _, r := range c.goRoots() {
		fmt.Fprintf(&b, "root %-90s recovered=%v at %s\n", core.Short(core.FuncName(r.fn)), r.recovered, r.site)
		if !r.recovered {
			roots = append(roots, r.fn)
		}
	}
	for _, target := range args {
		tf := c.P.F(target)
		if tf == nil {
			continue
		}
		// BFS
		prev := map[*ssa.Function]*ssa.Function{}
		seen := map[*ssa.Function]bool{}
		var q []*ssa.Function
		for _, r := range roots {
			n := core.Short(core.FuncName(r))
			if !(strings.HasPrefix(n, "gemmill/consensus/pbft.") || strings.HasPrefix(n, "gemmill/blockchain.") || strings.HasPrefix(n, "gemmill/mempool.") || strings.HasPrefix(n, "gemmill/p2p.")) {
				continue
			}
			seen[r] = true
			q = append(q, r)
		}
		for len(q) > 0 && !seen[tf] {
			f := q[0]
			q = q[1:]
			n := c.P.CG.Nodes[f]
			if n == nil {
				continue
			}
			for _, e := range n.Out {
				if _, isGo := e.Site.(*ssa.Go); isGo {
					continue
				}
				if !seen[e.Callee.Func] {
					seen[e.Callee.Func] = true
					prev[e.Callee.Func] = f
					q = append(q, e.Callee.Func)
				}
			}
		}
		if seen[tf] {
			var path []string
			for f := tf; f != nil; f = prev[f] {
				path = append([]string{core.Short(core.FuncName(f))}, path...)
			}
			fmt.Fprintf(&b, "PATH to %s:\n  %s\n", target, strings.Join(path, "\n  "))
		}
	}
	return b.String()
}

// ---- R8: panic-safe critical sections in recovered contexts ----

func isLockCall(ci ssa.CallInstruction) (string, bool, bool) {
	n := cfgxCallee(ci)
	switch n {
	case "sync.(*Mutex).Lock", "sync.(*RWMutex).Lock", "sync.(*RWMutex).RLock":
		if len(ci.Common().Args) > 0 {
			return exprOf(ci.Common().Args[0]), true, true
		}
	case "sync.(*Mutex).Unlock", "sync.(*RWMutex).Unlock", "sync.(*RWMutex).RUnlock":
		if len(ci.Common().Args) > 0 {
			return exprOf(ci.Common().Args[0]), false, true
		}
	}
	return "", false, false
}

// recoveredScope: functions reachable (not through `go`) from the goroutine roots that defer a recover
// in the p2p package (recvRoutine / sendRoutine), within gemmill/.
func (c *Ctx) recoveredScope() map[*ssa.Function]bool {
	var roots []*ssa.Function
	for _, r := range c.goRoots() {
		if r.recovered && strings.HasPrefix(core.Short(core.FuncName(r.fn)), "gemmill/p2p.") {
			roots = append(roots, r.fn)
		}
	}
	return c.P.Reachable(roots, true, func(fn *ssa.Function) bool {
		return !strings.HasPrefix(core.FuncName(fn), core.Mod+"/gemmill/")
	})
}

type critSection struct {
	fn     *ssa.Function
	lock   ssa.Instruction
	mutex  string
	risky  []ssa.Instruction
	leaked bool // a return is reachable with the lock held
}

// explicitSections finds Lock calls without a deferred Unlock of the same mutex and collects the
// instructions executed while the lock is held (until the matching explicit Unlock).
func explicitSections(fn *ssa.Function) []critSection {
	deferred := map[string]bool{}
	for _, b := range fn.Blocks {
		for _, ins := range b.Instrs {
			if d, ok := ins.(*ssa.Defer); ok {
				if m, acq, ok := isLockCall(d); ok && !acq {
					deferred[m] = true
				}
				// defer func() { ...Unlock() }()
				if mc, ok := d.Call.Value.(*ssa.MakeClosure); ok {
					if cf, ok := mc.Fn.(*ssa.Function); ok {
						for _, bb := range cf.Blocks {
							for _, i2 := range bb.Instrs {
								if ci, ok := i2.(ssa.CallInstruction); ok {
									if _, acq, ok := isLockCall(ci); ok && !acq {
										deferred["*"] = true
									}
								}
							}
						}
					}
				}
			}
		}
	}
	var out []critSection
	for _, b := range fn.Blocks {
		for i, ins := range b.Instrs {
			ci, ok := ins.(*ssa.Call)
			if !ok {
				continue
			}
			m, acq, ok := isLockCall(ci)
			if !ok || !acq || deferred[m] || deferred["*"] {
				continue
			}
			cs := critSection{fn: fn, lock: ins, mutex: m}
			seen := map[*ssa.BasicBlock]bool{}
			var walk func(bb *ssa.BasicBlock, from int)
			walk = func(bb *ssa.BasicBlock, from int) {
				for j := from; j < len(bb.Instrs); j++ {
					x := bb.Instrs[j]
					if c2, ok := x.(ssa.CallInstruction); ok {
						if m2, acq2, ok := isLockCall(c2); ok && !acq2 && m2 == m {
							if _, isDefer := x.(*ssa.Defer); !isDefer {
								return
							}
						}
					}
					if _, ok := x.(*ssa.Return); ok {
						cs.leaked = true
						return
					}
					if mayPanic(x) {
						cs.risky = append(cs.risky, x)
					}
				}
				for _, s := range bb.Succs {
					if !seen[s] {
						seen[s] = true
						walk(s, 0)
					}
				}
			}
			walk(b, i+1)
			out = append(out, cs)
		}
	}
	return out
}

// mayPanic: instructions that can raise a run-time panic on adversarial values.
func mayPanic(ins ssa.Instruction) bool {
	switch x := ins.(type) {
	case *ssa.Call:
		if _, ok := x.Call.Value.(*ssa.Builtin); ok {
			return false
		}
		n := cfgxCallee(x)
		for _, safe := range []string{"sync.", "sync/atomic.", "time.", "container/list.", "go.uber.org/zap.", "fmt.Sprintf", "math/rand."} {
			if strings.HasPrefix(n, safe) {
				return false
			}
		}
		return true
	case *ssa.IndexAddr, *ssa.Index, *ssa.Slice:
		return true
	case *ssa.TypeAssert:
		return !x.CommaOk
	case *ssa.BinOp:
		return x.Op.String() == "/" || x.Op.String() == "%"
	case *ssa.Panic:
		return true
	}
	return false
}

// DebugSections lists explicit critical sections in the recovered scope (diagnostics).
func (c *Ctx) DebugSections() string {
	var b strings.Builder
	scope := c.recoveredScope()
	var fns []*ssa.Function
	for fn := range scope {
		if fn.Blocks != nil {
			fns = append(fns, fn)
		}
	}
	sort.Slice(fns, func(i, j int) bool { return core.FuncName(fns[i]) < core.FuncName(fns[j]) })
	fmt.Fprintf(&b, "recovered scope: %d functions\n", len(fns))
	for _, fn := range fns {
		for _, cs := range explicitSections(fn) {
			fmt.Fprintf(&b, "%s lock %s at %s leaked=%v risky=%d\n", core.Short(core.FuncName(fn)), cs.mutex, c.Pos(cs.lock), cs.leaked, len(cs.risky))
			for _, r := range cs.risky {
				s := r.String()
				if v, ok := r.(ssa.Value); ok {
					s = exprOf(v)
				}
				if len(s) > 140 {
					s = s[:140]
				}
				fmt.Fprintf(&b, "      %s  %s\n", c.Pos(r), s)
			}
		}
	}
	return b.String()
}

var reAtPos = regexp.MustCompile(` at [^)]*`)

var reParam = regexp.MustCompile(`\ba[0-9]+\b`)

// mentionsCallerData: does the rendered expression mention a parameter other than the receiver?
func mentionsCallerData(fn *ssa.Function, v ssa.Value) bool {
	recv := fn.Signature.Recv() != nil
	for _, m := range reParam.FindAllString(exprOf(v), -1) {
		if recv && m == "a0" {
			continue
		}
		return true
	}
	return false
}

func nilable(t types.Type) bool {
	switch t.Underlying().(type) {
	case *types.Pointer, *types.Slice, *types.Map, *types.Interface, *types.Signature, *types.Chan:
		return true
	}
	return false
}

func c08R8(c *Ctx) {
	rule := c.R.Rule("R8", "panic-safe critical sections: in code reachable from the recovered p2p routines (where a panic unwinds into `_recover` and the process lives on) a mutex is released by a deferred Unlock, or the explicitly unlocked section passes no nil-able caller/peer data to a call and indexes nothing with it (otherwise one malformed message leaves the mutex locked for ever: wedge)", 8)
	scope := c.recoveredScope()
	var fns []*ssa.Function
	for fn := range scope {
		if fn.Blocks != nil {
			fns = append(fns, fn)
		}
	}
	sort.Slice(fns, func(i, j int) bool { return core.FuncName(fns[i]) < core.FuncName(fns[j]) })
	nlocks := 0
	for _, fn := range fns {
		f := c.Fn(fn)
		for _, ci := range f.Calls() {
			if _, isDefer := ci.(*ssa.Defer); isDefer {
				continue
			}
			if _, acq, ok := isLockCall(ci); ok && acq {
				nlocks++
			}
		}
		for _, cs := range explicitSections(fn) {
			var bad []string
			for _, r := range cs.risky {
				switch x := r.(type) {
				case *ssa.Call:
					for _, a := range x.Call.Args {
						if nilable(a.Type()) && mentionsCallerData(fn, a) {
							bad = append(bad, c.Pos(r)+" call "+shorten(exprOf(x)))
							break
						}
					}
				case *ssa.IndexAddr:
					if mentionsCallerData(fn, x.Index) || mentionsCallerData(fn, x.X) {
						bad = append(bad, c.Pos(r)+" index "+shorten(exprOf(x)))
					}
				case *ssa.Index:
					if mentionsCallerData(fn, x.Index) || mentionsCallerData(fn, x.X) {
						bad = append(bad, c.Pos(r)+" index "+shorten(exprOf(x)))
					}
				case *ssa.Slice:
					if mentionsCallerData(fn, x) {
						bad = append(bad, c.Pos(r)+" slice "+shorten(exprOf(x)))
					}
				case *ssa.TypeAssert:
					if mentionsCallerData(fn, x.X) {
						bad = append(bad, c.Pos(r)+" type assertion "+shorten(exprOf(x)))
					}
				case *ssa.Panic:
					bad = append(bad, c.Pos(r)+" panic")
				}
			}
			c.R.Ob(rule, "section:"+core.Short(core.FuncName(fn))+":"+cs.mutex, len(bad) == 0, c.Pos(cs.lock), core.FuncName(fn),
				fmt.Sprintf("Lock of %s is released by an explicit Unlock (no defer) and the section handles caller/peer data that can panic: %v", cs.mutex, bad))
		}
	}
	c.R.Ob(rule, "lock-sites-in-recovered-scope", nlocks >= 30 && len(fns) >= 150, "-", "", fmt.Sprintf("%d Lock sites in %d functions reachable from recvRoutine/sendRoutine", nlocks, len(fns)))
}

// ---- R1 recover boundary ----
func c08R1(c *Ctx) {
	rule := c.R.Rule("R1", "recover boundary: MConnection.recvRoutine and sendRoutine defer `_recover` in their entry block; `_recover` calls recover() and hands a non-nil value to stopForError, which calls onError (peer disconnect); every Reactor.Receive implementation is called only from newPeer's onReceive closure, which is called only from recvRoutine", 8)
	rec := c.Anchor(rule, "gemmill/p2p.(*MConnection)._recover")
	for _, rn := range []string{"recvRoutine", "sendRoutine"} {
		f := c.Anchor(rule, "gemmill/p2p.(*MConnection)."+rn)
		if f == nil {
			continue
		}
		ok := false
		pos := c.P.Pos(f.F.Pos())
		if len(f.F.Blocks) > 0 {
			for _, ins := range f.F.Blocks[0].Instrs {
				if d, isD := ins.(*ssa.Defer); isD && cfgxCallee(d) == "gemmill/p2p.(*MConnection)._recover" && exprOf(d.Call.Args[0]) == "a0" {
					ok = true
					pos = c.Pos(d)
				}
				// nothing that can panic may precede the defer
				if call, isC := ins.(*ssa.Call); isC && !ok {
					if _, bi := call.Call.Value.(*ssa.Builtin); !bi {
						break
					}
				}
			}
		}
		c.R.Ob(rule, rn+":defers-_recover-first", ok, pos, fname(f), "the routine must `defer c._recover()` in its entry block before any other call: without it a panic in a reactor's Receive kills the process instead of disconnecting the peer")
	}
	if rec != nil {
		hasRec := false
		var stop ssa.Instruction
		for _, ci := range rec.Calls() {
			if bi, ok := ci.Common().Value.(*ssa.Builtin); ok && bi.Name() == "recover" {
				hasRec = true
			}
			if cfgxCallee(ci) == "gemmill/p2p.(*MConnection).stopForError" {
				stop = ci
			}
		}
		c.R.Ob(rule, "_recover:calls-recover", hasRec, c.P.Pos(rec.F.Pos()), fname(rec), "`_recover` must call recover()")
		okStop := stop != nil && rec.HasGuard(stop.(ssa.Instruction), eqs("(recover() != nil)"))
		pos := c.P.Pos(rec.F.Pos())
		if stop != nil {
			pos = c.Pos(stop)
		}
		c.R.Ob(rule, "_recover:stopForError(recovered)", okStop, pos, fname(rec), "the recovered value must be handed to stopForError")
	}
	if sf := c.Anchor(rule, "gemmill/p2p.(*MConnection).stopForError"); sf != nil {
		ok := false
		var at ssa.Instruction
		for _, ci := range sf.Calls() {
			if strings.Contains(exprOf(ci.Common().Value), "a0.onError") {
				ok = true
				at = ci
			}
		}
		pos := c.P.Pos(sf.F.Pos())
		if at != nil {
			pos = c.Pos(at)
		}
		c.R.Ob(rule, "stopForError:calls-onError", ok, pos, fname(sf), "stopForError must invoke the onError callback (Switch.StopPeerForError)")
	}
	// Receive implementations
	nrecv := 0
	for _, fn := range c.P.RepoFuncs() {
		n := core.Short(core.FuncName(fn))
		if !strings.HasSuffix(n, ").Receive") || fn.Signature.Recv() == nil || fn.Signature.Params().Len() != 3 {
			continue
		}
		if !strings.HasSuffix(fn.Signature.Params().At(1).Type().String(), "p2p.Peer") {
			continue
		}
		if fn.Synthetic != "" {
			continue
		}
		nrecv++
		var bad []string
		for _, e := range c.P.Callers(fn) {
			cn := core.Short(core.FuncName(e.Caller.Func))
			if cn == "gemmill/p2p.newPeer$1" || e.Caller.Func.Synthetic != "" {
				continue
			}
			bad = append(bad, cn)
		}
		c.R.Ob(rule, "Receive-called-only-from-onReceive:"+n, len(bad) == 0, c.P.Pos(fn.Pos()), core.FuncName(fn), fmt.Sprintf("Receive runs peer bytes; it must be entered only below recvRoutine's recover. Other callers: %v", bad))
	}
	c.R.Ob(rule, "Receive-implementations", nrecv >= 5, "-", "", fmt.Sprintf("%d Reactor.Receive implementations found", nrecv))
	if on := c.P.F("gemmill/p2p.newPeer$1"); on != nil {
		var bad []string
		for _, e := range c.P.Callers(on) {
			cn := core.Short(core.FuncName(e.Caller.Func))
			if cn != "gemmill/p2p.(*MConnection).recvRoutine" {
				bad = append(bad, cn)
			}
		}
		c.R.Ob(rule, "onReceive-called-only-from-recvRoutine", len(bad) == 0 && len(c.P.Callers(on)) > 0, c.P.Pos(on.Pos()), core.FuncName(on), fmt.Sprintf("other callers: %v", bad))
	} else {
		c.R.Missing(rule, "gemmill/p2p.newPeer$1")
	}
}

// ---- R2 decode limits ----

// Decodes of the node's own records (database values, WAL, genesis): limit 0 (= unlimited) is allowed.
var c08LocalDecoders = map[string]string{
	"gemmill/blockchain.(*BlockStore).LoadBlock":       "block store record",
	"gemmill/blockchain.(*BlockStore).LoadBlockPart":   "block store record",
	"gemmill/blockchain.(*BlockStore).LoadBlockMeta":   "block store record",
	"gemmill/blockchain.(*BlockStore).LoadBlockCommit": "block store record",
	"gemmill/blockchain.(*BlockStore).LoadSeenCommit":  "block store record",
	"gemmill/blockchain.(*BlockStore).DeleteBlock":     "block store record",
	"gemmill/state.loadState":                          "state database record",
	"gemmill/types.(*BaseApplication).LoadLastBlock":   "application's own last-block record",
	"gemmill/types.(ValidatorsCodec).Decode":           "merkle-tree value codec over local data",
}

func c08R2(c *Ctx) {
	rule := c.R.Rule("R2", "decode limits: every wire.ReadBinary/ReadBinaryPtr call passes a positive constant limit, or a value edge-dominated by a constant upper bound; limit 0 (unlimited) only in the listed decoders of the node's own records", 9)
	sites := c.AllCalls(func(n string) bool {
		return n == "gemmill/go-wire.ReadBinary" || n == "gemmill/go-wire.ReadBinaryPtr"
	})
	npos := 0
	for _, s := range sites {
		fnm := core.Short(fname(s.Fn))
		if strings.HasPrefix(fnm, "gemmill/go-wire.") {
			continue
		}
		args := s.Call.Common().Args
		if len(args) < 3 {
			c.R.Undecided(rule, "limit:"+fnm, c.Pos(s.Call), fname(s.Fn), "unexpected arity")
			continue
		}
		lim := args[2]
		key := "limit:" + fnm + ":" + shorten(exprOf(args[0]))
		if k, ok := lim.(*ssa.Const); ok && k.Value != nil {
			v, _ := constant.Int64Val(constant.ToInt(k.Value))
			if v > 0 {
				npos++
				c.R.Ob(rule, key, true, c.Pos(s.Call), fname(s.Fn), fmt.Sprintf("limit %d", v))
				continue
			}
			why, local := c08LocalDecoders[fnm]
			c.R.Ob(rule, key, local, c.Pos(s.Call), fname(s.Fn), "limit 0 means unlimited: allowed only for local records ("+why+"); a network decode without a limit lets a peer make the node allocate arbitrarily")
			continue
		}
		// variable limit: needs a constant upper bound on every path
		le := exprOf(lim)
		ok := s.Fn.HasGuard(s.Call.(ssa.Instruction), func(g string) bool {
			return strings.HasPrefix(g, "!("+le+" > ") || strings.HasPrefix(g, "("+le+" <= ") || strings.HasPrefix(g, "("+le+" < ")
		})
		if ok {
			npos++
		}
		c.R.Ob(rule, key, ok, c.Pos(s.Call), fname(s.Fn), "variable limit "+le+" needs a dominating upper bound; "+guardsText(s.Fn, s.Call.(ssa.Instruction)))
	}
	c.R.Ob(rule, "bounded-network-decodes", npos >= 9, "-", "", fmt.Sprintf("%d decode sites with a positive bound", npos))
}

// ---- R5 nil fields cross the queue only after a dereference in the recovered context ----

// derefsParamAlways: does fn dereference its idx-th parameter on every path (a field access / load /
// method call through it in a block dominating every return), without testing it for nil first?
func (c *Ctx) derefsParamAlways(fn *ssa.Function, idx int, depth int) bool {
	if fn == nil || fn.Blocks == nil || idx >= len(fn.Params) || depth > 2 {
		return false
	}
	f := c.Fn(fn)
	p := fn.Params[idx]
	pe := exprOf(p)
	rets := f.Returns()
	domAll := func(ins ssa.Instruction) bool {
		if len(rets) == 0 {
			return false
		}
		for _, r := range rets {
			if !f.Dominates(ins, r) {
				return false
			}
		}
		return true
	}
	for _, b := range fn.Blocks {
		for _, ins := range b.Instrs {
			if !f.Live(ins) {
				continue
			}
			hit := false
			switch x := ins.(type) {
			case *ssa.FieldAddr:
				hit = exprOf(x.X) == pe
			case *ssa.UnOp:
				hit = x.Op.String() == "*" && exprOf(x.X) == pe
			case *ssa.Call:
				if callee := x.Call.StaticCallee(); callee != nil {
					for i, a := range x.Call.Args {
						if exprOf(a) == pe && c.derefsParamAlways(callee, i, depth+1) {
							hit = true
						}
					}
				}
			}
			if hit && domAll(ins) {
				return true
			}
		}
	}
	return false
}

var reTypeCase = regexp.MustCompile(`^(.*)\.\(\*([A-Za-z0-9_/.\-]+)\)#1$`)

func c08R5(c *Ctx) {
	rule := c.R.Rule("R5", "nil fields at the queue boundary: in ConsensusReactor.Receive every send on peerMsgQueue of a message type with pointer fields is dominated by a dereference of each such field (directly, or by a callee that dereferences that parameter on every path) — so a nil field panics under recvRoutine's recover (peer dropped) and never reaches the unrecovered consensus goroutine; BlockPool.AddBlock dereferences the block header before filing the block for poolRoutine; Block.Hash/ValidateBasic tolerate nil Header/Data/LastCommit; VerifyCommit and Commit.Height/Round tolerate nil commits", 6)
	f := c.Anchor(rule, "gemmill/consensus/pbft.(*ConsensusReactor).Receive")
	if f != nil {
		nsend := 0
		for _, b := range f.F.Blocks {
			for _, ins := range b.Instrs {
				snd, ok := ins.(*ssa.Send)
				if !ok || !f.Live(ins) || !strings.HasSuffix(exprOf(snd.Chan), ".peerMsgQueue") {
					continue
				}
				nsend++
				// the type case this send belongs to
				var base, tname string
				for _, g := range f.AllGuardForms(ins) {
					if m := reTypeCase.FindStringSubmatch(g); m != nil && !strings.HasPrefix(g, "!") {
						base, tname = m[1], m[2]
					}
				}
				if tname == "" {
					c.R.Undecided(rule, "send:unknown-type-case", c.Pos(ins), fname(f), "send on peerMsgQueue outside a type case; "+guardsText(f, ins))
					continue
				}
				obj := lookupType(c, tname)
				st, _ := obj.(*types.Struct)
				if st == nil {
					c.R.Undecided(rule, "send:"+tname, c.Pos(ins), fname(f), "cannot resolve message type")
					continue
				}
				short := tname[strings.LastIndex(tname, ".")+1:]
				nptr := 0
				for i := 0; i < st.NumFields(); i++ {
					fld := st.Field(i)
					if _, isPtr := fld.Type().Underlying().(*types.Pointer); !isPtr {
						continue
					}
					nptr++
					want := base + ".(*" + tname + ")#0." + fld.Name()
					ok := false
					for _, bb := range f.F.Blocks {
						for _, i2 := range bb.Instrs {
							if !f.Live(i2) || !f.Dominates(i2, ins) {
								continue
							}
							switch x := i2.(type) {
							case *ssa.FieldAddr:
								if exprOf(x.X) == want {
									ok = true
								}
							case *ssa.Call:
								if callee := x.Call.StaticCallee(); callee != nil {
									for k, a := range x.Call.Args {
										if exprOf(a) == want && c.derefsParamAlways(callee, k, 0) {
											ok = true
										}
									}
								}
							}
						}
					}
					c.R.Ob(rule, "enqueue:"+short+"."+fld.Name()+":dereferenced-before-send", ok, c.Pos(ins), fname(f),
						fmt.Sprintf("%s.%s is a pointer decoded from peer bytes (nil is encodable); it is sent to the consensus goroutine (no recover) without first being dereferenced under recvRoutine's recover", short, fld.Name()))
				}
				c.R.Ob(rule, "enqueue:"+short+":type-case-resolved", true, c.Pos(ins), fname(f), fmt.Sprintf("%d pointer field(s)", nptr))
			}
		}
		c.R.Ob(rule, "peerMsgQueue-sends-in-Receive", nsend >= 3, c.P.Pos(f.F.Pos()), fname(f), fmt.Sprintf("%d sends", nsend))
	}
	if ab := c.Anchor(rule, "gemmill/blockchain.(*BlockPool).AddBlock"); ab != nil {
		// block (a2) dereferenced (its embedded *Header loaded and a field read) before setBlock
		var set ssa.Instruction
		for _, ci := range ab.CallsTo(cfgx.Named("gemmill/blockchain.(*bpRequester).setBlock")) {
			set = ci
		}
		ok := false
		if set != nil {
			for _, b := range ab.F.Blocks {
				for _, ins := range b.Instrs {
					if fa, isFA := ins.(*ssa.FieldAddr); isFA && ab.Live(ins) && exprOf(fa.X) == "a2.Header" && ab.Dominates(ins, set) {
						ok = true
					}
				}
			}
		}
		pos := c.P.Pos(ab.F.Pos())
		if set != nil {
			pos = c.Pos(set)
		}
		c.R.Ob(rule, "AddBlock:header-dereferenced-before-setBlock", ok, pos, fname(ab), "a block with a nil Header must panic here (recovered Receive) and not in poolRoutine (first.Height)")
	}
	if h := c.Anchor(rule, "gemmill/types.(*Block).Hash"); h != nil {
		for _, fld := range []string{"Header", "Data", "LastCommit"} {
			ok := false
			for _, ci := range h.CallsTo(cfgx.Named("gemmill/types.(*Block).FillHeader", "gemmill/types.(*Header).Hash")) {
				if h.HasGuard(ci.(ssa.Instruction), eqs("(a0."+fld+" != nil)")) {
					ok = true
				} else {
					ok = false
					break
				}
			}
			c.R.Ob(rule, "Block.Hash:"+fld+"-nil-tolerated", ok, c.P.Pos(h.F.Pos()), fname(h), "Block.Hash is called by poolRoutine on peer-supplied blocks before any validation; it must return nil instead of dereferencing a nil "+fld)
		}
	}
	nilCommitRuleInto(c, rule)
}

func lookupType(c *Ctx, qualified string) types.Type {
	i := strings.LastIndex(qualified, ".")
	if i < 0 {
		return nil
	}
	pk := c.P.Pkg(qualified[:i])
	if pk == nil || pk.Types == nil {
		return nil
	}
	o := pk.Types.Scope().Lookup(qualified[i+1:])
	if o == nil {
		return nil
	}
	return o.Type().Underlying()
}

// ---- R6 representation invariant of peer-decoded BitArrays ----
func c08R6(c *Ctx) {
	rule := c.R.Rule("R6", "representation invariant: a *BitArray decoded from a peer (exported Bits/Elems, so len(Elems) need not match Bits) is stored into PeerState — which the unrecovered gossip goroutines index — only after BitArray.IsConsistent() held: every PeerState.Apply*Message call in Receive whose message type has a *BitArray field is edge-dominated by IsConsistent(msg.field); IsConsistent compares len(Elems) with (Bits+63)/64", 4)
	f := c.Anchor(rule, "gemmill/consensus/pbft.(*ConsensusReactor).Receive")
	n := 0
	if f != nil {
		for _, ci := range f.Calls() {
			callee := ci.Common().StaticCallee()
			if callee == nil || !strings.HasPrefix(callee.Name(), "Apply") || !strings.Contains(core.FuncName(callee), "(*PeerState)") || len(ci.Common().Args) < 2 {
				continue
			}
			msg := ci.Common().Args[1]
			pt, ok := msg.Type().Underlying().(*types.Pointer)
			if !ok {
				continue
			}
			st, ok := pt.Elem().Underlying().(*types.Struct)
			if !ok {
				continue
			}
			for i := 0; i < st.NumFields(); i++ {
				fld := st.Field(i)
				if !strings.HasSuffix(fld.Type().String(), "go-common.BitArray") {
					continue
				}
				n++
				want := "gemmill/modules/go-common.(*BitArray).IsConsistent(" + exprOf(msg) + "." + fld.Name() + ")"
				ok := f.HasGuard(ci.(ssa.Instruction), eqs(want))
				tn := pt.Elem().String()
				tn = tn[strings.LastIndex(tn, ".")+1:]
				c.R.Ob(rule, callee.Name()+":"+tn+"."+fld.Name()+"⊣IsConsistent", ok, c.Pos(ci), fname(f),
					"peer-decoded bit array stored without the consistency check: Sub/Or/PickRandom/GetIndex on it index Elems by Bits in gossipVotesRoutine/gossipDataRoutine (no recover); "+guardsText(f, ci.(ssa.Instruction)))
			}
		}
	}
	c.R.Ob(rule, "bitarray-carrying-Apply-calls", n >= 3, "-", "", fmt.Sprintf("%d", n))
	if ic := c.Anchor(rule, "gemmill/modules/go-common.(*BitArray).IsConsistent"); ic != nil {
		cmp, low := false, false
		for _, b := range ic.F.Blocks {
			for _, ins := range b.Instrs {
				if bo, ok := ins.(*ssa.BinOp); ok {
					e := exprOf(bo)
					if e == "(len(a0.Elems) == ((a0.Bits + 63) / 64))" || e == "(((a0.Bits + 63) / 64) == len(a0.Elems))" {
						cmp = true
					}
					if e == "(a0.Bits > 0)" || e == "(a0.Bits >= 0)" || e == "(a0.Bits < 0)" || e == "(a0.Bits <= 0)" {
						low = true
					}
				}
			}
		}
		c.R.Ob(rule, "IsConsistent:len(Elems)==(Bits+63)/64", cmp, c.P.Pos(ic.F.Pos()), fname(ic), "the validator must compare the element count with the bit count")
		c.R.Ob(rule, "IsConsistent:Bits-sign-tested", low, c.P.Pos(ic.F.Pos()), fname(ic), "the validator must reject negative Bits")
	}
}

// ---- R7 bounded catch-up rounds and addRound's precondition ----
func c08R7(c *Ctx) {
	rule := c.R.Rule("R7", "bounded catch-up and addRound precondition: addRound panics on an existing round, so every call is made for a round known to be absent — in AddVote under `getVoteSet(round,type) == nil` with a valid type and `len(peerCatchupRounds[peer]) < 2` (a peer opens at most two extra rounds), in SetRound under the failed map lookup of that round, in Reset right after the map is re-made", 4)
	hv := "gemmill/consensus/pbft.(*HeightVoteSet)"
	sites := c.AllCalls(func(n string) bool { return n == hv+".addRound" })
	for _, s := range sites {
		fnm := core.Short(fname(s.Fn))
		arg := callArg(s.Call, 1)
		ins := s.Call.(ssa.Instruction)
		switch fnm {
		case hv + ".AddVote":
			c.requireGuards(rule, "AddVote:addRound", s.Fn, ins, []WantGuard{
				{"vote-type-valid", eqs("gemmill/types.IsVoteTypeValid(a1.Type)")},
				{"round-absent", eqs("(" + hv + ".getVoteSet(a0," + arg + ",a1.Type) == nil)")},
				{"peer-catchup<2", eqs("(len(a0.peerCatchupRounds[a2]) < 2)")},
			})
			// and the round is recorded against the peer
			rec := false
			for _, b := range s.Fn.F.Blocks {
				for _, i2 := range b.Instrs {
					if mu, ok := i2.(*ssa.MapUpdate); ok && s.Fn.Live(i2) && exprOf(mu.Map) == "a0.peerCatchupRounds" && exprOf(mu.Key) == "a2" && s.Fn.Dominates(ins, i2) {
						rec = true
					}
				}
			}
			c.R.Ob(rule, "AddVote:catch-up-round-recorded", rec, c.Pos(ins), fname(s.Fn), "the opened round must be appended to peerCatchupRounds[peer], otherwise the bound of two never takes effect")
		case hv + ".SetRound":
			c.requireGuards(rule, "SetRound:addRound", s.Fn, ins, []WantGuard{
				{"round-absent", eqs("!a0.roundVoteSets[" + arg + "]#1")},
			})
		case hv + ".Reset":
			// dominated by a store of a fresh map
			ok := false
			for _, st := range s.Fn.FieldStores("gemmill/consensus/pbft.HeightVoteSet", "roundVoteSets") {
				if _, isMk := st.Val.(*ssa.MakeMap); isMk && s.Fn.Dominates(st, ins) {
					ok = true
				}
			}
			c.R.Ob(rule, "Reset:addRound-after-fresh-map", ok, c.Pos(ins), fname(s.Fn), "addRound(0) must follow the re-creation of roundVoteSets")
		default:
			c.R.Ob(rule, "addRound-caller:"+fnm, false, c.Pos(ins), fname(s.Fn), "unreviewed caller of addRound (panics on an existing round)")
		}
	}
	c.R.Ob(rule, "addRound-call-sites", len(sites) >= 3, "-", "", fmt.Sprintf("%d", len(sites)))
}

// c08R11: peer-decoded bit arrays may be nil (go-wire encodes a nil pointer) and IsConsistent accepts nil;
// the binary operations the gossip goroutines apply to them must tolerate a nil operand.
func c08R11(c *Ctx) {
	rule := c.R.Rule("R11", "nil operand tolerance: every method of *BitArray that takes another *BitArray dereferences that operand (field access) only under `operand != nil` — PeerState holds bit arrays decoded from peers, nil included, and the gossip goroutines (no recover) pass them to these methods (only methods reachable from an unrecovered goroutine carry the obligation)", 2)
	n := 0
	scope, _ := c.unrecoveredScope()
	for _, fn := range c.P.FuncsOfPkg("gemmill/modules/go-common") {
		if fn.Signature.Recv() == nil || !strings.Contains(core.FuncName(fn), "(*BitArray).") || fn.Blocks == nil {
			continue
		}
		// obligations only for the operations the goroutines without a recover can reach; a nil operand in
		// Receive's own context (Or/Update in ApplyVoteSetBitsMessage) disconnects that peer, which the property allows
		if !scope[fn] {
			continue
		}
		f := c.Fn(fn)
		for pi, p := range fn.Params {
			if pi == 0 || !strings.HasSuffix(p.Type().String(), "go-common.BitArray") {
				continue
			}
			if _, isPtr := p.Type().(*types.Pointer); !isPtr {
				continue
			}
			n++
			pe := exprOf(p)
			var bad ssa.Instruction
			for _, b := range fn.Blocks {
				for _, ins := range b.Instrs {
					fa, ok := ins.(*ssa.FieldAddr)
					if !ok || !f.Live(ins) || exprOf(fa.X) != pe {
						continue
					}
					if !f.HasGuard(ins, eqs("("+pe+" != nil)")) {
						bad = ins
					}
				}
			}
			pos := c.P.Pos(fn.Pos())
			if bad != nil {
				pos = c.Pos(bad)
			}
			c.R.Ob(rule, "nil-operand:"+fn.Name(), bad == nil, pos, core.FuncName(fn), "operand "+pe+" is dereferenced without a nil test: a peer that sends a message whose bit array is nil (e.g. CommitStepMessage.BlockParts) crashes the gossip goroutine that combines it with ours")
		}
	}
	c.R.Ob(rule, "bitarray-binary-methods", n >= 2, "-", "", fmt.Sprintf("%d reachable from unrecovered goroutines", n))
}

// c08R12: nil-receiver sanity panics. Some methods (VoteSet.AddVote ...) panic when called on a nil receiver;
// RoundState fields that are legitimately nil at times (LastCommit at height 1) must not reach them unguarded
// on a goroutine without recover when the path is selected by a peer message.
func c08R12(c *Ctx) {
	rule := c.R.Rule("R12", "nil-receiver panics: a method that panics when its receiver is nil is called, on a goroutine without recover, on a RoundState field that is assigned nil somewhere (e.g. LastCommit at the first height) only under `field != nil`", 1)
	// 1. methods that panic on a nil receiver
	panics := map[*ssa.Function]bool{}
	for _, rel := range []string{"gemmill/types", "gemmill/consensus/pbft", "gemmill/modules/go-common"} {
		for _, fn := range c.P.FuncsOfPkg(rel) {
			if fn.Signature.Recv() == nil || fn.Blocks == nil || len(fn.Params) == 0 {
				continue
			}
			f := c.Fn(fn)
			for _, b := range fn.Blocks {
				for _, ins := range b.Instrs {
					isPanic := false
					if _, ok := ins.(*ssa.Panic); ok {
						isPanic = true
					}
					if c.NR.IsNoRetCall(ins) {
						isPanic = true
					}
					if !isPanic {
						continue
					}
					gs := f.Guards(ins)
					if len(gs) == 1 {
						for _, s := range cfgx.NormGuard(gs[0]) {
							if s == "(a0 == nil)" {
								panics[fn] = true
							}
						}
					}
				}
			}
		}
	}
	// 2. RoundState fields that are assigned nil somewhere
	nilable := map[string]bool{}
	for _, fn := range c.P.FuncsOfPkg("gemmill/consensus/pbft") {
		if fn.Blocks == nil {
			continue
		}
		for _, b := range fn.Blocks {
			for _, ins := range b.Instrs {
				if st, ok := ins.(*ssa.Store); ok && cfgx.IsNilConst(st.Val) {
					if fa, ok := st.Addr.(*ssa.FieldAddr); ok && strings.Contains(exprOf(fa.X), "RoundState") {
						e := exprOf(fa)
						nilable[e[strings.LastIndex(e, ".")+1:]] = true
					}
				}
			}
		}
	}
	// 3. calls in unrecovered scope
	scope, _ := c.unrecoveredScope()
	var fns []*ssa.Function
	for fn := range scope {
		if fn.Blocks != nil && strings.HasPrefix(core.FuncName(fn), core.Mod+"/gemmill/consensus/pbft.") {
			fns = append(fns, fn)
		}
	}
	sort.Slice(fns, func(i, j int) bool { return core.FuncName(fns[i]) < core.FuncName(fns[j]) })
	n := 0
	for _, fn := range fns {
		f := c.Fn(fn)
		for _, ci := range f.Calls() {
			callee := ci.Common().StaticCallee()
			if callee == nil || !panics[callee] || len(ci.Common().Args) == 0 {
				continue
			}
			if _, isCall := ci.(*ssa.Call); !isCall {
				continue
			}
			re := exprOf(ci.Common().Args[0])
			if !strings.Contains(re, ".RoundState.") {
				continue
			}
			fld := re[strings.LastIndex(re, ".")+1:]
			if !nilable[fld] {
				continue
			}
			n++
			ok := f.HasGuard(ci.(ssa.Instruction), eqs("("+re+" != nil)"))
			c.R.Ob(rule, "nil-receiver:"+core.Short(core.FuncName(fn))+":"+fld+"."+callee.Name(), ok, c.Pos(ci), core.FuncName(fn),
				callee.Name()+" panics on a nil receiver and "+fld+" is nil at times (assigned nil in this package); "+guardsText(f, ci.(ssa.Instruction)))
		}
	}
	c.R.Ob(rule, "nil-receiver-panic-methods", len(panics) >= 1, "-", "", fmt.Sprintf("%d methods panic on a nil receiver, %d nil-able RoundState fields, %d call sites examined", len(panics), len(nilable), n))
}

// c08R13: allocation sizes are bounded in every context — a recover does not help against an allocation
// that exhausts memory.
func c08R13(c *Ctx) {
	rule := c.R.Rule("R13", "bounded allocation under the recover too: in code reachable from the recovered p2p routines an integer decoded from peer bytes that reaches an allocation size (make, through function parameters) is edge-dominated by an upper bound (a recovered panic costs a connection; an unbounded allocation costs the process)", 1)
	scope := c.recoveredScope()
	peer := taint.PeerTypes(c.P, c08RegPkgs, c08ExtraPeer)
	eng := taint.New(c.P, peer, c.Fn, scope)
	eng.Trusted = []string{").TwoThirdsMajority(", "gemmill/blockchain.(*BlockStore).Load", "gemmill/blockchain.(*BlockStore).GetReader("}
	fs, sinks, _ := eng.CheckBounds()
	n := 0
	for _, f := range fs {
		if !strings.HasPrefix(f.Kind, "make") || !strings.Contains(f.Missing, "upper") {
			continue
		}
		n++
		c.R.Ob(rule, "alloc:"+core.Short(fname(f.Fn))+":"+reAtPos.ReplaceAllString(f.Kind, "")+":"+shorten(f.Operand), false, c.Pos(f.Ins), fname(f.Fn),
			fmt.Sprintf("peer-controlled %v sizes an allocation without an upper bound; %s %v", f.Taint, guardsText(f.Fn, f.Ins), f.Via))
	}
	c.R.Ob(rule, "scope", len(scope) > 100 && sinks > 50, "-", "", fmt.Sprintf("%d functions, %d sinks examined, %d unbounded allocations", len(scope), sinks, n))
}

// c08R14: a pointer obtained together with an error that is thrown away.
func c08R14(c *Ctx) {
	rule := c.R.Rule("R14", "no use of a result whose error was discarded: in the peer-facing packages (p2p, the reactors) a call returning (pointer, error) whose error is never read must not have its pointer result dereferenced or passed on without a nil test — the parse of a peer-supplied string (NodeInfo.ListenAddr) fails exactly when the pointer is nil", 1)
	n, bad := 0, 0
	for _, rel := range []string{"gemmill/p2p", "gemmill/blockchain", "gemmill/mempool", "gemmill/consensus/pbft"} {
		for _, fn := range c.P.FuncsOfPkg(rel) {
			if fn.Blocks == nil {
				continue
			}
			f := c.Fn(fn)
			for _, ci := range f.Calls() {
				call, ok := ci.(*ssa.Call)
				if !ok {
					continue
				}
				tup, ok := call.Type().(*types.Tuple)
				if !ok || tup.Len() != 2 || tup.At(1).Type().String() != "error" {
					continue
				}
				if _, isPtr := tup.At(0).Type().Underlying().(*types.Pointer); !isPtr {
					continue
				}
				callee := call.Call.StaticCallee()
				if callee == nil || !strings.HasPrefix(core.FuncName(callee), core.Mod+"/gemmill/") {
					continue
				}
				n++
				var val *ssa.Extract
				errRead := false
				for _, r := range *call.Referrers() {
					if ex, ok := r.(*ssa.Extract); ok {
						if ex.Index == 1 && len(*ex.Referrers()) > 0 {
							errRead = true
						}
						if ex.Index == 0 {
							val = ex
						}
					}
				}
				if errRead || val == nil || len(*val.Referrers()) == 0 {
					continue
				}
				// the pointer is used although the error was dropped: every use must be under `ptr != nil`
				ve := exprOf(val)
				unguarded := ""
				for _, r := range *val.Referrers() {
					if _, isIf := r.(*ssa.If); isIf {
						continue
					}
					if bo, isBo := r.(*ssa.BinOp); isBo && (cfgx.IsNilConst(bo.X) || cfgx.IsNilConst(bo.Y)) {
						continue
					}
					if !f.HasGuard(r, eqs("("+ve+" != nil)")) {
						unguarded = c.Pos(r)
					}
				}
				if unguarded != "" {
					bad++
				}
				c.R.Ob(rule, "discarded-error:"+core.Short(core.FuncName(fn))+":"+core.Short(core.FuncName(callee)), unguarded == "", c.Pos(call), core.FuncName(fn),
					"the error of "+callee.Name()+" is discarded and its pointer result is used at "+unguarded+" without a nil test")
			}
		}
	}
	c.R.Ob(rule, "calls-examined", n >= 10, "-", "", fmt.Sprintf("%d calls returning (pointer, error) examined, %d use the pointer after dropping the error", n, bad))
}
