package rules

import (
	"fmt"
	"strings"

	"golang.org/x/tools/go/ssa"

	"annverif/cfgx"
	"annverif/core"
)

func init() {
	Registry["C01"] = c01
	Metas["C01"] = Meta{Level: "other", NeedCG: true, Technique: "static analysis: exhaustive evaluation of every quorum-threshold expression found in SSA, counted-once typestate on tally sites, edge-dominance of commit gating and linkage checks",
		Explain: "Static analysis of the premises the agreement argument rests on (quorum intersection + commit gating + linkage); the agreement property itself quantifies over interleavings of >=4 machines against an adversary and is not decided. Decided: (R1) every comparison in node code whose operand is arithmetic over ValidatorSet.TotalVotingPower() is, by exhaustive evaluation over 0<=T<=240, 0<=x<=T+1, pointwise equal to 3x>2T or its negation, and each consumer uses the right polarity; (R2) every tally of voting power counts a validator at most once (range-indexed, slot-guarded or map-miss-guarded addition); (R3) the block is saved/applied in finalizeCommit only under a +2/3 precommit majority for exactly that block and after validation; (R4) block validation enforces height = last+1 and LastBlockID = the state's on every success path. (R5) the cached total voting power (the quorum denominator) is invalidated by every mutation of the set and has no incremental writer. The locking rules are decided under C04, the signer under C03, WAL under C07.",
		Assume:  []string{"voting powers are non-negative and total power is far below 2^63 (the code's own NOTE)", "the integer threshold predicate is periodic in T mod 3, so the evaluated range is complete absent overflow"},
	}
}

const vsT = "gemmill/types.(*VoteSet)"
const valsT = "gemmill/types.(*ValidatorSet)"

func c01(c *Ctx) {
	quorumRule(c, "R1")
	tallyRule(c, "R2")
	c01R3(c)
	c01R4(c)
	valsetCacheRule(c, "R5")
	walSkipRule(c, "R6")
	shared(c, "C04", c04R3, c04R4, c04R5)
	shared(c, "C15", func(c *Ctx) { verifyCommitRule(c, "R7") })
	shared(c, "C03", c03R2, c03R3)
}

// quorumRule is shared by C01-R1, C14-R2 and C15.
func quorumRule(c *Ctx, id string) {
	rule := c.R.Rule(id, "quorum predicate: every comparison over TotalVotingPower() in gemmill/ and chain/ is pointwise (T<=240, x<=T+1, exhaustive) equal to 3x>2T or its negation; consumers use the right polarity: VerifyCommit returns nil only under P; HasTwoThirdsAny returns P(sum); CheckMajor23 returns P(tally); maj23 is set only when the per-block sum crosses (not P before, P after)", 5)
	sites := c.QuorumSites()
	byFn := map[string][]QuorumSite{}
	for _, s := range sites {
		n := core.Short(fname(s.Fn))
		byFn[n] = append(byFn[n], s)
		ok := s.Class == "P" || s.Class == "notP"
		detail := fmt.Sprintf("comparison %s classified %s (tally leaf %s)", cfgx.Expr(s.Cmp), s.Class, s.X)
		if s.Class == "eq" {
			// an equality with the total is an all-power test, not a threshold; reviewed instance:
			ok = n == vsT+".HasAll"
			detail += "; equality with the total is allowed only in VoteSet.HasAll (skip-timeout-commit 'have all votes' test)"
		}
		c.R.Ob(rule, "threshold:"+n+":"+shorten(s.X), ok, c.Pos(s.Cmp), fname(s.Fn), detail)
	}
	// polarity at the consumers
	polGuard := func(f *cfgx.Fn, site ssa.Instruction, wantP bool, leafFrag string) bool {
		for _, g := range f.Guards(site) {
			cmp, ok := g.Cond.(*ssa.BinOp)
			if !ok {
				continue
			}
			cl, x := classifyQuorum(cmp)
			if leafFrag != "" && !strings.Contains(x, leafFrag) {
				continue
			}
			isP := (cl == "P" && g.Pol) || (cl == "notP" && !g.Pol)
			isN := (cl == "notP" && g.Pol) || (cl == "P" && !g.Pol)
			if wantP && isP || !wantP && isN {
				return true
			}
		}
		return false
	}
	if f := c.Anchor(rule, valsT+".VerifyCommit"); f != nil {
		rets := nilErrReturns(f)
		if len(rets) == 0 {
			c.R.Undecided(rule, "VerifyCommit:success-return", c.P.Pos(f.F.Pos()), fname(f), "no nil return found")
		}
		for _, r := range rets {
			c.R.Ob(rule, "VerifyCommit:nil⊣P(tally)", polGuard(f, r, true, ""), c.Pos(r), fname(f), "commit accepted without the tally exceeding 2/3 of the total; "+guardsText(f, r))
		}
	}
	retIsP := func(name string) {
		f := c.Anchor(rule, name)
		if f == nil {
			return
		}
		n := 0
		for _, r := range f.Returns() {
			v := f.ReturnValues(r)[0]
			if cst, ok := v.(*ssa.Const); ok {
				// constant false on the nil-receiver path is fine; constant true is not
				okc := cst.Value != nil && cst.Value.ExactString() == "false"
				c.R.Ob(rule, core.Short(name)+":const-return", okc, c.Pos(r), fname(f), "constant result "+cfgx.Expr(v))
				continue
			}
			n++
			cmp, ok := v.(*ssa.BinOp)
			cl := ""
			if ok {
				cl, _ = classifyQuorum(cmp)
			}
			c.R.Ob(rule, core.Short(name)+":returns-P", cl == "P", c.Pos(r), fname(f), "must return (3*tally > 2*total); returns "+cfgx.Expr(v)+" class "+cl)
		}
		if n == 0 {
			c.R.Undecided(rule, core.Short(name)+":returns-P", c.P.Pos(f.F.Pos()), fname(f), "no threshold return found")
		}
	}
	retIsP(vsT + ".HasTwoThirdsAny")
	retIsP("gemmill/plugin.(*AdminOp).CheckMajor23")
	if f := c.Anchor(rule, vsT+".addVerifiedVote"); f != nil {
		sts := f.FieldStores("gemmill/types.VoteSet", "maj23")
		if len(sts) == 0 {
			c.R.Undecided(rule, "maj23-store", c.P.Pos(f.F.Pos()), fname(f), "no store to maj23")
		}
		for _, st := range sts {
			c.R.Ob(rule, "maj23-store⊣crossing", polGuard(f, st, true, ".sum") && polGuard(f, st, false, ".sum"), c.Pos(st), fname(f),
				"maj23 must be set only when the block's sum crosses the quorum (below before the vote, above after); "+guardsText(f, st))
		}
	}
}

// tallyRule is shared by C01-R2, C14-R1, C15-R3.
func tallyRule(c *Ctx, id string) {
	rule := c.R.Rule(id, "counted once: every addition of a validator's voting power into a tally is (a) indexed by the position of a range loop over the per-validator slice, or (b) edge-dominated by `slot == nil` for a per-validator slot that is stored on the same path, or (c) edge-dominated by a miss in a map that is inserted on the same path and is keyed by the very value the counted validator was looked up by (its address)", 5)
	for _, t := range c.TallySites() {
		f := t.Fn
		n := core.Short(fname(f))
		kind, ok := "", false
		// (a) range-indexed
		// the range must be over the per-validator slice (Validators[i] / GetByIndex(i)), not over an input list
		if strings.Contains(t.Addend, ".Validators[(phi(-1|loop) + 1)]") || strings.Contains(t.Addend, ",(phi(-1|loop) + 1))#1.VotingPower") {
			kind, ok = "range-indexed", true
		}
		if !ok {
			for _, g := range f.Guards(t.Add) {
				for _, s := range cfgx.NormGuard(g) {
					// (b) slot == nil
					if strings.HasSuffix(s, " == nil)") && strings.Contains(s, "[") {
						slot := strings.TrimSuffix(strings.TrimPrefix(s, "("), " == nil)")
						for _, st := range f.Stores(cfgx.Equals(slot)) {
							if f.BlockOf(st) == f.BlockOf(t.Add) || f.Dominates(t.Add, st) || f.Dominates(st, t.Add) {
								if len(f.PathGuardsHas(st, s)) > 0 {
									kind, ok = "slot-guarded:"+slot, true
								}
							}
						}
					}
					// (c) map miss: "!M[K]#1"
					if strings.HasPrefix(s, "!") && strings.HasSuffix(s, "#1") && strings.Contains(s, "[") {
						lk := strings.TrimSuffix(strings.TrimPrefix(s, "!"), "#1")
						// the key must be the identity the counted validator was looked up by
						if has, key := mapUpdateKey(f, lk, t.Add); has && strings.Contains(t.Addend, ","+key+")#1") {
							kind, ok = "map-miss-guarded:"+lk, true
						} else if has {
							kind = "seen-set keyed by " + shorten(key) + " which is not the key of the validator lookup"
						}
					}
				}
			}
		}
		c.R.Ob(rule, "tally:"+n+":"+shorten(t.Acc)+"+="+shorten(t.Addend), ok, c.Pos(t.Add), fname(f),
			fmt.Sprintf("kind=%s; a repeated entry for one validator would be counted again; %s", kind, guardsText(f, t.Add)))
	}
}

// hasMapUpdate: a MapUpdate of M[K] (rendered "M[K]") in the same block as, or dominating/dominated by, site.
func hasMapUpdate(f *cfgx.Fn, lookup string, site ssa.Instruction) bool {
	has, _ := mapUpdateKey(f, lookup, site)
	return has
}

func mapUpdateKey(f *cfgx.Fn, lookup string, site ssa.Instruction) (bool, string) {
	for _, b := range f.F.Blocks {
		for _, ins := range b.Instrs {
			mu, ok := ins.(*ssa.MapUpdate)
			if !ok || !f.Live(ins) {
				continue
			}
			if cfgx.Expr(mu.Map)+"["+cfgx.Expr(mu.Key)+"]" == lookup {
				if f.BlockOf(mu) == f.BlockOf(site) || f.Dominates(site, mu) {
					return true, cfgx.Expr(mu.Key)
				}
			}
		}
	}
	return false, ""
}

func c01R3(c *Ctx) {
	rule := c.R.Rule("R3", "commit gating: in finalizeCommit, BlockStore.SaveBlock and State.ApplyBlock take cs.ProposalBlock and are edge-dominated by ok of Precommits(CommitRound).TwoThirdsMajority(), ProposalBlock.HashesTo(majority hash), ProposalBlockParts.HasHeader(majority parts) and ValidateBlock(ProposalBlock)==nil; the seen commit is MakeCommit() of the same precommit set", 9)
	f := c.Anchor(rule, csT+".finalizeCommit")
	if f == nil {
		return
	}
	pol := tmaj("Precommits", "a0.RoundState.CommitRound")
	wants := []WantGuard{
		{"precommit-maj-ok", cfgx.Equals(pol + "#1")},
		{"ProposalBlock.HashesTo(maj)", cfgx.Equals(hashesTo("ProposalBlock", pol+"#0.Hash"))},
		{"parts-header-matches", cfgx.Equals("gemmill/types.(*PartSet).HasHeader(a0.RoundState.ProposalBlockParts," + pol + "#0.PartsHeader)")},
		{"ValidateBlock==nil", cfgx.Equals("(gemmill/state.(*State).ValidateBlock(a0.state,a0.RoundState.ProposalBlock) == nil)")},
		{"step==Commit", cfgx.Equals("(a0.RoundState.Step == 8)")},
		{"height-matches", cfgx.Equals("(a0.RoundState.Height == a1)")},
	}
	for _, callee := range []string{"gemmill/blockchain.(*BlockStore).SaveBlock", "gemmill/state.(*State).ApplyBlock"} {
		cs := f.CallsTo(cfgx.Named(callee))
		if len(cs) != 1 {
			c.R.Undecided(rule, core.Short(callee)+":site", c.P.Pos(f.F.Pos()), fname(f), fmt.Sprintf("expected exactly one call, found %d", len(cs)))
			continue
		}
		short := callee[strings.LastIndex(callee, ".")+1:]
		c.requireGuards(rule, short, f, cs[0], wants)
		blockArg := 1
		if short == "ApplyBlock" {
			blockArg = 2
		}
		c.R.Ob(rule, short+":block=ProposalBlock", callArg(cs[0], blockArg) == "a0.RoundState.ProposalBlock", c.Pos(cs[0]), fname(f), "the committed block must be cs.ProposalBlock, got "+callArg(cs[0], blockArg))
		if short == "SaveBlock" {
			want := "gemmill/types.(*VoteSet).MakeCommit(gemmill/consensus/pbft.(*HeightVoteSet).Precommits(a0.RoundState.Votes,a0.RoundState.CommitRound))"
			c.R.Ob(rule, "SaveBlock:seenCommit=MakeCommit(Precommits(CommitRound))", callArg(cs[0], 3) == want, c.Pos(cs[0]), fname(f), "seen commit must come from the same precommit set whose majority gated the commit")
		}
	}
	// SaveBlock has no other caller in pbft
	for _, s := range c.AllCalls(cfgx.Named("gemmill/blockchain.(*BlockStore).SaveBlock")) {
		caller := core.Short(fname(s.Fn))
		ok := caller == csT+".finalizeCommit" || caller == "gemmill.(*Angine).assembleStateMachine$3" || strings.HasPrefix(caller, "gemmill.(*Angine).assembleStateMachine$") ||
			strings.HasPrefix(caller, "gemmill/consensus/raft.") || strings.HasPrefix(caller, "gemmill/blockchain.")
		c.R.Ob(rule, "SaveBlock-caller:"+caller, ok, c.Pos(s.Call), fname(s.Fn), "blocks may be stored only by finalizeCommit, the fast-sync executor closure and the raft FSM")
	}
}

func c01R4(c *Ctx) {
	rule := c.R.Rule("R4", "linkage: every success return of Block.ValidateBasic is edge-dominated by Height == lastBlockHeight+1 and LastBlockID.Equals(lastBlockID); the pbft verifier passes the state's LastBlockHeight/LastBlockID", 3)
	f := c.Anchor(rule, "gemmill/types.(*Block).ValidateBasic")
	if f != nil {
		rets := nilErrReturns(f)
		if len(rets) == 0 {
			c.R.Undecided(rule, "ValidateBasic:success", c.P.Pos(f.F.Pos()), fname(f), "no success return")
		}
		for _, r := range rets {
			c.requireGuards(rule, "ValidateBasic:success", f, r, []WantGuard{
				{"height=last+1", cfgx.Equals("(a0.Header.Height == (a2 + 1))")},
				{"LastBlockID-matches", cfgx.Equals("gemmill/types.(BlockID).Equals(a0.Header.LastBlockID,a3)")},
			})
		}
	}
	g := c.Anchor(rule, csT+".ValidateBlock")
	if g != nil {
		cs := g.CallsTo(cfgx.Named("gemmill/types.(*Block).ValidateBasic"))
		ok := len(cs) == 1 && callArg(cs[0], 2) == "a0.state.LastBlockHeight" && callArg(cs[0], 3) == "a0.state.LastBlockID" && callArg(cs[0], 0) == "a1"
		pos := c.P.Pos(g.F.Pos())
		if len(cs) > 0 {
			pos = c.Pos(cs[0])
		}
		c.R.Ob(rule, "pbft.ValidateBlock:passes-state-linkage", ok, pos, fname(g), "ValidateBasic must be called with cs.state.LastBlockHeight and cs.state.LastBlockID")
	}
}
