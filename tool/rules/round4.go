package rules

import (
	"fmt"
	"go/token"
	"go/types"
	"reflect"
	"strings"

	"golang.org/x/tools/go/ssa"

	"annverif/cfgx"
	"annverif/core"
)

// Rules added after the fourth round of seeded changes (each is registered under the property named in its id).

// c12R9: the commit step always ends up with a part set for the committed header.
func c12R9(c *Ctx) {
	rule := c.R.Rule("R9", "commit step has a part set: in enterCommit the replacement ProposalBlockParts = NewPartSetFromHeader(majority.PartsHeader) happens whenever the current part set does not have that header — it is not additionally conditioned on ProposalBlockParts != nil (a node that never saw the proposal has none, and without the replacement it drops every part and the height never commits)", 1)
	f := c.Anchor(rule, csT+".enterCommit")
	if f == nil {
		return
	}
	n := 0
	for _, st := range f.FieldStores(rsT, "ProposalBlockParts") {
		if !strings.HasPrefix(exprOf(st.Val), "gemmill/types.NewPartSetFromHeader(") {
			continue
		}
		n++
		okHas := f.HasGuard(st, func(g string) bool {
			return strings.HasPrefix(g, "!gemmill/types.(*PartSet).HasHeader(a0.RoundState.ProposalBlockParts,")
		})
		notNil := f.HasGuard(st, eqs("(a0.RoundState.ProposalBlockParts != nil)"))
		c.R.Ob(rule, "enterCommit:new-part-set⊣!HasHeader-only", okHas && !notNil, c.Pos(st), fname(f), "guards: "+shorten(guardsText(f, st)))
	}
	if n == 0 {
		c.R.Undecided(rule, "enterCommit:new-part-set", c.P.Pos(f.F.Pos()), fname(f), "no NewPartSetFromHeader store")
	}
}

// c15R10: the per-block tally key separates block ids.
func c15R10(c *Ctx) {
	rule := c.R.Rule("R10", "tally key is self-delimiting: BlockID.Key() concatenates at most one raw variable-length byte string, every other component goes through the length-prefixed go-wire encoding (two raw strings side by side let different block ids share a key and pool their votes); PartSet.HasHeader compares the whole header (PartSetHeader.Equals: Total and Hash)", 3)
	if f := c.Anchor(rule, "gemmill/types.(BlockID).Key"); f != nil {
		for _, r := range f.Returns() {
			v := f.ReturnValues(r)[0]
			raw, enc, other := 0, 0, 0
			var walk func(x ssa.Value)
			walk = func(x ssa.Value) {
				if bo, ok := x.(*ssa.BinOp); ok && bo.Op.String() == "+" {
					walk(bo.X)
					walk(bo.Y)
					return
				}
				if cv, ok := x.(*ssa.Convert); ok {
					if call, isCall := cv.X.(*ssa.Call); isCall && cfgxCallee(call) == "gemmill/go-wire.BinaryBytes" {
						enc++
						return
					}
					raw++
					return
				}
				other++
			}
			walk(v)
			c.R.Ob(rule, "Key:at-most-one-raw-component", raw <= 1 && other == 0 && enc >= 1, c.Pos(r), fname(f), fmt.Sprintf("%d raw byte strings, %d wire-encoded components, %d others in %s", raw, enc, other, shorten(exprOf(v))))
		}
	}
	headerEqualsRule(c, rule)
}

func headerEqualsRule(c *Ctx, rule string) {
	if f := c.Anchor(rule, "gemmill/types.(*PartSet).HasHeader"); f != nil {
		ok := false
		for _, r := range f.Returns() {
			if exprOf(f.ReturnValues(r)[0]) == "gemmill/types.(PartSetHeader).Equals(gemmill/types.(*PartSet).Header(a0),a1)" {
				ok = true
			}
		}
		c.R.Ob(rule, "HasHeader:whole-header-compared", ok, c.P.Pos(f.F.Pos()), fname(f), "a part set built for the same root hash but another part count must be replaced, not kept: genuine parts would be rejected for their index/proof shape")
	}
	if f := c.Anchor(rule, "gemmill/types.(PartSetHeader).Equals"); f != nil {
		tot, hash := false, false
		for _, b := range f.F.Blocks {
			for _, ins := range b.Instrs {
				if v, ok := ins.(ssa.Value); ok {
					switch exprOf(v) {
					case "(a0.Total == a1.Total)", "(a1.Total == a0.Total)":
						tot = true
					case "bytes.Equal(a0.Hash,a1.Hash)", "bytes.Equal(a1.Hash,a0.Hash)":
						hash = true
					}
				}
			}
		}
		c.R.Ob(rule, "PartSetHeader.Equals:Total-and-Hash", tot && hash, c.P.Pos(f.F.Pos()), fname(f), "")
	}
}

// c16R8: one proposer per (height, round): everybody asks the round-rotated copy; Add always goes through the search.
func c16R8(c *Ctx) {
	rule := c.R.Rule("R8", "one source for the proposer: every Proposer() call of the pbft consensus state is made on cs.Validators (RoundState.Validators, the copy enterNewRound rotates), both where the node decides whether to propose and where it verifies a proposal's signature; ValidatorSet.Add computes the insertion point with sort.Search before any store (so the equal-address test always runs)", 3)
	n := 0
	for _, fn := range c.P.FuncsOfPkg("gemmill/consensus/pbft") {
		if fn.Blocks == nil || !strings.Contains(core.FuncName(fn), "(*ConsensusState).") {
			continue
		}
		f := c.Fn(fn)
		for _, ci := range f.CallsTo(cfgx.Named(valsT + ".Proposer")) {
			n++
			c.R.Ob(rule, "Proposer()-on-cs.Validators:"+fn.Name(), callArg(ci, 0) == "a0.RoundState.Validators", c.Pos(ci), core.FuncName(fn), "proposer taken from "+shorten(callArg(ci, 0))+": the committed state's set is the round-0 rotation; in a later round the node would propose out of turn (and be rejected) or not at all")
		}
	}
	c.R.Ob(rule, "Proposer()-call-sites", n >= 2, "-", "", fmt.Sprintf("%d", n))
	if f := c.Anchor(rule, valsT+".Add"); f != nil {
		var search ssa.Instruction
		for _, ci := range f.CallsTo(cfgx.Named("sort.Search")) {
			search = ci
		}
		ok := search != nil
		for _, st := range f.FieldStores("gemmill/types.ValidatorSet", "Validators") {
			if search == nil || !f.Dominates(search, st) {
				ok = false
			}
		}
		c.R.Ob(rule, "Add:search-before-any-store", ok, c.P.Pos(f.F.Pos()), fname(f), "an insertion path that bypasses sort.Search also bypasses the equal-address refusal: the set can gain a duplicate member")
	}
}

// c18R10: one JSON encoding per instant.
func c18R10(c *Ctx) {
	rule := c.R.Rule("R10", "canonical time in JSON: every time.Time formatted by go-wire's JSON writer is converted to UTC first (the layout ends in a literal Z; without the conversion the same instant encodes differently per time zone and decodes shifted)", 1)
	n := 0
	for _, fn := range c.P.FuncsOfPkg("gemmill/go-wire") {
		if fn.Blocks == nil {
			continue
		}
		f := c.Fn(fn)
		for _, ci := range f.CallsTo(cfgx.Named("time.(Time).Format")) {
			n++
			c.R.Ob(rule, "Format-on-UTC:"+core.Short(core.FuncName(fn)), strings.HasPrefix(callArg(ci, 0), "time.(Time).UTC("), c.Pos(ci), core.FuncName(fn), "formatted value is "+shorten(callArg(ci, 0)))
		}
	}
	c.R.Ob(rule, "Format-sites", n >= 1, "-", "", fmt.Sprintf("%d", n))
}

// c19R7: every committed transaction leaves every list.
func c19R7(c *Ctx) {
	rule := c.R.Rule("R7", "commit cleans every list: ethTxPool.Update hands the same set of committed transactions to refreshAdminOP and refreshBroadcastList (admin requests sit on both lists); demoteUnexecutables drops the committed prefix (Forward(state nonce)) of every account it visits, without an early skip", 3)
	if f := c.Anchor(rule, tpT+".Update"); f != nil {
		a := firstCall(f, tpT+".refreshAdminOP")
		b := firstCall(f, tpT+".refreshBroadcastList")
		ok := a != nil && b != nil && a.Common().Args[1] == b.Common().Args[1]
		c.R.Ob(rule, "Update:same-committed-set-to-both-refreshes", ok, c.P.Pos(f.F.Pos()), fname(f), "the two refresh calls must see all committed transactions")
		// and the set holds every committed tx: its insertion is not conditioned on the tx kind
		if a != nil {
			bad := ""
			for _, blk := range f.F.Blocks {
				for _, ins := range blk.Instrs {
					if mu, isMu := ins.(*ssa.MapUpdate); isMu && f.Live(ins) && mu.Map == a.Common().Args[1] {
						for _, g := range f.AllGuardForms(ins) {
							if strings.Contains(g, "IsAdminOP(") {
								bad = g
							}
						}
					}
				}
			}
			c.R.Ob(rule, "Update:committed-set-holds-every-tx", bad == "", c.P.Pos(f.F.Pos()), fname(f), "insertion conditioned on "+shorten(bad))
		}
	}
	if f := c.Anchor(rule, tpT+".demoteUnexecutables"); f != nil {
		n := 0
		for _, ci := range f.CallsTo(cfgx.Named("chain/app/evm.(*txSortedMap).Forward")) {
			n++
			extra := ""
			for _, g := range f.AllGuardForms(ci.(ssa.Instruction)) {
				if !strings.Contains(g, "next(range(a0.pending))#0") {
					extra = g
				}
			}
			c.R.Ob(rule, "demote:Forward-for-every-account", extra == "", c.Pos(ci), fname(f), "the committed prefix is dropped only under "+shorten(extra)+": committed transactions of the other accounts stay pending and are offered again")
		}
		if n == 0 {
			c.R.Undecided(rule, "demote:Forward", c.P.Pos(f.F.Pos()), fname(f), "no Forward call")
		}
	}
}

// c20R9: receive buffers are private to their owner.
func c20R9(c *Ctx) {
	rule := c.R.Rule("R9", "private receive buffers: the frame whose tail SecretConnection.Read keeps in sc.recvBuffer is allocated by that call (make), never taken from a pool that gets it back; a Channel's reassembly buffer `recving` is nil, a make of its own, an append to itself, or a slice of itself — never a capacity-sharing slice of a common slab", 3)
	if f := c.Anchor(rule, "gemmill/p2p.(*SecretConnection).Read"); f != nil {
		n := 0
		for _, st := range f.FieldStores("gemmill/p2p.SecretConnection", "recvBuffer") {
			v := st.Val
			if cfgx.IsNilConst(v) {
				continue
			}
			n++
			root := v
			for i := 0; i < 6; i++ {
				if sl, ok := root.(*ssa.Slice); ok {
					root = sl.X
					continue
				}
				break
			}
			_, isMake := root.(*ssa.MakeSlice)
			if _, al := root.(*ssa.Alloc); al {
				isMake = true
			}
			selfSlice := strings.HasPrefix(exprOf(root), "a0.recvBuffer")
			// the frame may come from the decode helper, which must allocate it itself
			if ex, isEx := root.(*ssa.Extract); isEx {
				if call, isCall := ex.Tuple.(*ssa.Call); isCall && cfgxCallee(call) == "gemmill/p2p.(*SecretConnection).readDecode" {
					if rd := c.P.F("gemmill/p2p.(*SecretConnection).readDecode"); rd != nil {
						g := c.Fn(rd)
						allMake := true
						for _, r := range g.Returns() {
							rv := g.ReturnValues(r)[0]
							if cfgx.IsNilConst(rv) {
								continue
							}
							for i := 0; i < 4; i++ {
								if sl, isSl := rv.(*ssa.Slice); isSl {
									rv = sl.X
								}
							}
							_, mk := rv.(*ssa.MakeSlice)
							_, al := rv.(*ssa.Alloc) // make with a constant size is lowered to new [N]byte + slice
							if !mk && !al {
								allMake = false
							}
						}
						isMake = allMake
					}
				}
			}
			pooled := ""
			for _, name := range []string{"gemmill/p2p.(*SecretConnection).Read", "gemmill/p2p.(*SecretConnection).readDecode"} {
				if pf := c.P.F(name); pf != nil {
					for _, ci := range c.Fn(pf).Calls() {
						if strings.HasPrefix(cfgxCallee(ci), "sync.(*Pool).") {
							pooled = cfgxCallee(ci) + " in " + pf.Name()
						}
					}
				}
			}
			c.R.Ob(rule, "Read:recvBuffer-backed-by-own-frame", (isMake || selfSlice) && pooled == "", c.Pos(st), fname(f), pooled+" "+"the bytes kept for the next Read live in "+shorten(exprOf(root))+": if that buffer is recycled another connection's frame overwrites them")
		}
		if n == 0 {
			c.R.Undecided(rule, "Read:recvBuffer", c.P.Pos(f.F.Pos()), fname(f), "no store of the unread tail")
		}
	}
	n := 0
	for _, fn := range c.P.FuncsOfPkg("gemmill/p2p") {
		if fn.Blocks == nil {
			continue
		}
		f := c.Fn(fn)
		for _, st := range f.FieldStores("gemmill/p2p.Channel", "recving") {
			n++
			v := st.Val
			ok := cfgx.IsNilConst(v)
			switch x := v.(type) {
			case *ssa.MakeSlice:
				ok = true
			case *ssa.Call:
				ok = cfgxCallee(x) == "builtin:append"
			case *ssa.Slice:
				ok = strings.HasSuffix(exprOf(x.X), ".recving") || x.Max != nil
			}
			c.R.Ob(rule, "recving-store:"+core.Short(core.FuncName(fn)), ok, c.Pos(st), core.FuncName(fn), "recving = "+shorten(exprOf(v))+": a two-index slice of a shared buffer keeps the capacity of the whole rest of it, append grows into the next channel's region")
		}
	}
	c.R.Ob(rule, "recving-stores", n >= 2, "-", "", fmt.Sprintf("%d", n))
}

// c03R7: the watermark comparisons are signed.
func c03R7(c *Ctx) {
	rule := c.R.Rule("R7", "signed watermark comparisons: every comparison in signBytesHRS involving LastHeight / LastRound / LastStep is made on signed integers (after a conversion to an unsigned type a negative height or round compares as a huge value and is not seen as a regression); the symbolic rendering used by R2 is blind to conversions, this obligation is not", 6)
	f := c.Anchor(rule, pvType+".signBytesHRS")
	if f == nil {
		return
	}
	n := 0
	for _, b := range f.F.Blocks {
		for _, ins := range b.Instrs {
			bo, ok := ins.(*ssa.BinOp)
			if !ok || !f.Live(ins) {
				continue
			}
			e := exprOf(bo)
			if !(strings.Contains(e, "a0.LastHeight") || strings.Contains(e, "a0.LastRound") || strings.Contains(e, "a0.LastStep")) {
				continue
			}
			switch bo.Op.String() {
			case "<", "<=", ">", ">=", "==", "!=":
			default:
				continue
			}
			n++
			unsigned := false
			for _, op := range []ssa.Value{bo.X, bo.Y} {
				if bt, isB := op.Type().Underlying().(*types.Basic); isB && bt.Info()&types.IsUnsigned != 0 {
					unsigned = true
				}
			}
			c.R.Ob(rule, "signed-compare:"+shorten(e), !unsigned, c.Pos(ins), fname(f), "comparison on an unsigned type")
		}
	}
	c.R.Ob(rule, "comparisons", n >= 6, c.P.Pos(f.F.Pos()), fname(f), fmt.Sprintf("%d", n))
}

// c02R9: a received block reaches validation as it was decoded.
func c02R9(c *Ctx) {
	rule := c.R.Rule("R9", "validated as received: between decoding the proposal block and its validation nothing rewrites it — addProposalBlockPart does not call Block.Hash / FillHeader / MakePartSet on the decoded block (Hash() fills absent header commitments in place: called first, the checks of ValidateBasic compare the block with itself); FillHeader fills a commitment only when it is nil", 2)
	if f := c.Anchor(rule, csT+".addProposalBlockPart"); f != nil {
		bad := ""
		for _, ci := range f.CallsTo(cfgx.Named("gemmill/types.(*Block).Hash", "gemmill/types.(*Block).FillHeader", "gemmill/types.(*Block).MakePartSet", "gemmill/types.(*Block).HashesTo")) {
			if strings.Contains(callArg(ci, 0), "ProposalBlock") || strings.Contains(callArg(ci, 0), "ReadBinary(") {
				bad = cfgxCallee(ci) + " at " + c.Pos(ci)
			}
		}
		c.R.Ob(rule, "addProposalBlockPart:no-hash-before-validation", bad == "", c.P.Pos(f.F.Pos()), fname(f), bad)
	}
	if f := c.Anchor(rule, "gemmill/types.(*Block).FillHeader"); f != nil {
		n := 0
		for _, st := range f.Stores(func(a string) bool { return strings.HasSuffix(a, "Hash") }) {
			n++
			fld := exprOf(st.Addr)
			ok := f.HasGuard(st, eqs("("+fld+" == nil)"))
			c.R.Ob(rule, "FillHeader:"+fld[strings.LastIndex(fld, ".")+1:]+"-filled-only-when-nil", ok, c.Pos(st), fname(f), "a present (even empty) commitment of a received header must be left for validation to reject; "+shorten(guardsText(f, st)))
		}
		if n == 0 {
			c.R.Undecided(rule, "FillHeader:stores", c.P.Pos(f.F.Pos()), fname(f), "no commitment store")
		}
	}
}

// replayVotesRule (C07-R10, C06-R8): replay re-issues the node's own votes.
func replayVotesRule(c *Ctx, id string) {
	rule := c.R.Rule(id, "own votes are (re)issued during replay: in signAddVote the signVote call and the hand-over to the internal queue do not depend on cs.replayMode (a crash between the WAL line that triggers a vote and the line of the vote itself is healed only by signing again — the signer re-releases the identical signature); replayMode may only silence logging", 2)
	f := c.Anchor(rule, csT+".signAddVote")
	if f == nil {
		return
	}
	n := 0
	for _, ci := range f.Calls() {
		name := cfgxCallee(ci)
		if name != csT+".signVote" && name != csT+".sendInternalMessage" {
			continue
		}
		n++
		bad := ""
		for _, g := range f.AllGuardForms(ci.(ssa.Instruction)) {
			if strings.Contains(g, "a0.replayMode") {
				bad = g
			}
		}
		c.R.Ob(rule, "signAddVote:"+name[strings.LastIndex(name, ".")+1:]+"-independent-of-replayMode", bad == "", c.Pos(ci), fname(f), "guarded by "+bad)
	}
	if n < 2 {
		c.R.Undecided(rule, "signAddVote:calls", c.P.Pos(f.F.Pos()), fname(f), "signVote / sendInternalMessage not found")
	}
}

// ---- rules added after the fifth round ----

// noSendUnderConsensusLock (C08-R15, C12-R10): the reactor never blocks on the consensus queue while holding cs.mtx.
func noSendUnderConsensusLock(c *Ctx, id string) {
	rule := c.R.Rule(id, "no blocking send under the consensus mutex: a send on ConsensusState.peerMsgQueue / internalMsgQueue in the pbft package is never executed with ConsensusState.mtx held — receiveRoutine takes that mutex for every message, so a reactor goroutine that waits on a full queue while holding it wedges consensus for good (a peer only has to flood the vote channel)", 3)
	a := c.Locks()
	n := 0
	for _, fn := range c.P.FuncsOfPkg("gemmill/consensus/pbft") {
		if fn.Blocks == nil {
			continue
		}
		f := c.Fn(fn)
		for _, b := range fn.Blocks {
			for _, ins := range b.Instrs {
				snd, ok := ins.(*ssa.Send)
				if !ok || !f.Live(ins) {
					continue
				}
				ch := exprOf(snd.Chan)
				if !(strings.HasSuffix(ch, ".peerMsgQueue") || strings.HasSuffix(ch, ".internalMsgQueue")) {
					continue
				}
				n++
				held := a.MustHeld(ins)
				c.R.Ob(rule, "send:"+core.Short(core.FuncName(fn))+":"+ch[strings.LastIndex(ch, ".")+1:], !held["gemmill/consensus/pbft.ConsensusState.mtx"], c.Pos(ins), core.FuncName(fn), fmt.Sprintf("locks held at the send: %v", held.Sorted()))
			}
		}
	}
	c.R.Ob(rule, "queue-sends", n >= 3, "-", "", fmt.Sprintf("%d", n))
}

// c14R8: the tally uses the validator set the chain has now.
func c14R8(c *Ctx) {
	rule := c.R.Rule("R8", "the quorum is tallied against the current set: AdminOp.EndBlock publishes the block's next validator set through the plugin's own pointer (`*s.validators = p.NextValidatorSet`) on the path that applied changes — consensus commits every block on a copy of the state, so the struct the pointer was initialised with is never updated by anyone else and CheckMajor23 would keep counting removed validators", 1)
	f := c.Anchor(rule, aopT+".EndBlock")
	if f == nil {
		return
	}
	ok := false
	for _, st := range f.Stores(func(a string) bool { return a == "a0.validators" }) {
		if exprOf(st.Val) == "a1.NextValidatorSet" {
			ok = true
		}
	}
	c.R.Ob(rule, "EndBlock:publishes-NextValidatorSet", ok, c.P.Pos(f.F.Pos()), fname(f), "no store `*s.validators = p.NextValidatorSet`")
}

// c16R9: whoever enters a later round rotates the proposer first.
func c16R9(c *Ctx) {
	rule := c.R.Rule("R9", "round entry rotates the proposer: in ConsensusState.addVote every jump to a step of the vote's round (enterPrevote / enterPrevoteWait / enterPrecommit / enterPrecommitWait / enterCommit with round = vote.Round) is dominated by enterNewRound(height, vote.Round) — only enterNewRound copies the validator set and applies IncrementAccum(round - cs.Round); skipping it leaves the replica with an earlier round's proposer", 5)
	f := c.Anchor(rule, csT+".addVote")
	if f == nil {
		return
	}
	var news []ssa.Instruction
	for _, ci := range f.CallsTo(cfgx.Named(csT + ".enterNewRound")) {
		if callArg(ci, 2) == "a1.Round" {
			news = append(news, ci.(ssa.Instruction))
		}
	}
	n := 0
	for _, ci := range f.Calls() {
		name := cfgxCallee(ci)
		if !strings.HasPrefix(name, csT+".enter") || name == csT+".enterNewRound" || len(ci.Common().Args) < 3 || callArg(ci, 2) != "a1.Round" {
			continue
		}
		n++
		ok := false
		for _, nr := range news {
			if f.Dominates(nr, ci.(ssa.Instruction)) {
				ok = true
			}
		}
		c.R.Ob(rule, "addVote:"+name[strings.LastIndex(name, ".")+1:]+"(vote.Round)⊣enterNewRound(vote.Round)", ok, c.Pos(ci), fname(f), "step of the vote's round entered without enterNewRound for that round")
	}
	c.R.Ob(rule, "round-jumps", n >= 5, c.P.Pos(f.F.Pos()), fname(f), fmt.Sprintf("%d", n))
}

// c18R11: JSON strings through encoding/json; no consensus-critical field hidden from the codec.
func c18R11(c *Ctx) {
	rule := c.R.Rule("R11", "codec completeness: go-wire's JSON writer quotes strings with encoding/json (strconv.Quote emits Go escapes that are not JSON); no exported field of the consensus-critical types (Header, Data, Block, Commit, Vote, Proposal, Part, PartSetHeader, BlockID, BlockMeta, Validator, ValidatorSet, State) carries the json tag `-` — go-wire derives its binary field list from the json tag, such a field is dropped from both formats", 20)
	for _, fn := range c.P.FuncsOfPkg("gemmill/go-wire") {
		if fn.Blocks == nil || !strings.Contains(fn.Name(), "JSON") {
			continue
		}
		f := c.Fn(fn)
		for _, ci := range f.Calls() {
			if strings.HasPrefix(cfgxCallee(ci), "strconv.Quote") {
				c.R.Ob(rule, "json-string-via-strconv.Quote:"+fn.Name(), false, c.Pos(ci), core.FuncName(fn), "strconv.Quote is Go syntax, not JSON: control characters and non-printable runes round-trip to a decode error")
			}
		}
	}
	check := func(rel string, names []string) {
		pk := c.P.Pkg(rel)
		if pk == nil || pk.Types == nil {
			c.R.Missing(rule, rel)
			return
		}
		for _, tn := range names {
			o := pk.Types.Scope().Lookup(tn)
			if o == nil {
				c.R.Missing(rule, rel+"."+tn)
				continue
			}
			ts, _ := o.Type().Underlying().(*types.Struct)
			for i := 0; ts != nil && i < ts.NumFields(); i++ {
				fld := ts.Field(i)
				if !fld.Exported() {
					continue
				}
				tag := reflect.StructTag(ts.Tag(i)).Get("json")
				c.R.Ob(rule, "encoded:"+tn+"."+fld.Name(), tag != "-", c.P.Pos(fld.Pos()), "", "field hidden from go-wire (json tag `-`): lost on every trip through the wire, the block store, the state db")
			}
		}
	}
	check("gemmill/types", []string{"Header", "Data", "Block", "Commit", "Vote", "Proposal", "Part", "PartSetHeader", "BlockID", "BlockMeta", "Validator", "ValidatorSet"})
	check("gemmill/state", []string{"State"})
}

// c20R10: the handshake transcript covers both ephemeral keys.
func c20R10(c *Ctx) {
	rule := c.R.Rule("R10", "challenge and nonces bind both ephemeral keys: in genChallenge / genNonces, when the hash input is assembled with copy(), the destination slices are pairwise different regions (two copies into the same region drop one key from the transcript: a recorded signature can be replayed against another node); the hash is computed over a value that depends on both parameters", 2)
	for _, name := range []string{"genChallenge", "genNonces"} {
		f := c.Anchor(rule, "gemmill/p2p."+name)
		if f == nil {
			continue
		}
		dests := map[string]int{}
		for _, ci := range f.CallsTo(cfgx.Named("builtin:copy")) {
			dests[callArg(ci, 0)]++
		}
		dup := ""
		for d, k := range dests {
			if k > 1 {
				dup = d
			}
		}
		both := false
		for _, ci := range f.Calls() {
			if cn := cfgxCallee(ci); strings.HasPrefix(cn, "crypto/sha256.") || strings.HasPrefix(cn, "gemmill/p2p.hash") || strings.HasPrefix(cn, "golang.org/x/crypto/") {
				e := callArg(ci, 0)
				both = both || (strings.Contains(e, "a0") && strings.Contains(e, "a1")) || len(dests) >= 2
			}
		}
		c.R.Ob(rule, name+":both-keys-in-distinct-regions", dup == "" && both, c.P.Pos(f.F.Pos()), fname(f), "copy destination used twice: "+shorten(dup))
	}
}

// c19R8: the pool is in step with the committed state when the commit hook returns; the dedup cache outlives the backlog.
func c19R8(c *Ctx) {
	rule := c.R.Rule("R8", "pool catches up inside the commit hook: EVMApp.OnCommit calls pool.updateToState synchronously (a `go` statement lets the next Reap run before the committed nonces are dropped); the default mempool's duplicate cache is created with a compile-time constant capacity, independent of configuration (a capacity derived from block_size is smaller than an unbounded backlog: queued transactions fall out of the cache and are accepted again)", 3)
	if f := c.Anchor(rule, evmT+".OnCommit"); f != nil {
		n, async := 0, false
		for _, ci := range f.Calls() {
			if cfgxCallee(ci) == tpT+".updateToState" {
				n++
				if _, isGo := ci.(*ssa.Go); isGo {
					async = true
				}
				if _, isDefer := ci.(*ssa.Defer); isDefer {
					async = true
				}
			}
		}
		// a `go` of a closure/bound method shows up as a Go instruction whose callee is resolved by the call graph
		for _, b := range f.F.Blocks {
			for _, ins := range b.Instrs {
				if g, ok := ins.(*ssa.Go); ok {
					for _, callee := range c.P.Callees(g) {
						if strings.HasSuffix(core.FuncName(callee), ".updateToState") || strings.Contains(core.FuncName(callee), "updateToState$bound") {
							n++
							async = true
						}
					}
				}
			}
		}
		c.R.Ob(rule, "OnCommit:updateToState-synchronous", n >= 1 && !async, c.P.Pos(f.F.Pos()), fname(f), fmt.Sprintf("%d call(s), asynchronous=%v", n, async))
	}
	n := 0
	for _, s := range c.AllCalls(cfgx.Named("gemmill/mempool.newTxCache")) {
		n++
		_, isConst := s.Call.Common().Args[0].(*ssa.Const)
		c.R.Ob(rule, "txCache-capacity-constant:"+core.Short(fname(s.Fn)), isConst, c.Pos(s.Call), fname(s.Fn), "capacity is "+shorten(callArg(s.Call, 0)))
	}
	c.R.Ob(rule, "txCache-constructions", n >= 1, "-", "", fmt.Sprintf("%d", n))
}

// c20R11: the flush timer never blocks while holding its mutex.
func c20R11(c *Ctx) {
	rule := c.R.Rule("R11", "non-blocking timer fire: ThrottleTimer.fireRoutine (MConnection's flush timer) offers its tick with a select that has a default branch — it runs with the timer's mutex held, and sendRoutine's next flushTimer.Set() needs that mutex: a blocking offer deadlocks the send side of the connection for good", 1)
	f := c.Anchor(rule, "gemmill/modules/go-common.(*ThrottleTimer).fireRoutine")
	if f == nil {
		return
	}
	n, blocking := 0, 0
	for _, b := range f.F.Blocks {
		for _, ins := range b.Instrs {
			switch x := ins.(type) {
			case *ssa.Select:
				n++
				if x.Blocking {
					blocking++
				}
			case *ssa.Send:
				n++
				blocking++
			}
		}
	}
	c.R.Ob(rule, "fireRoutine:non-blocking-offer", n >= 1 && blocking == 0, c.P.Pos(f.F.Pos()), fname(f), fmt.Sprintf("%d channel operations, %d blocking", n, blocking))
}

// setRoundRule (C12-R11; the same obligation is part of C15-R9).
func setRoundRule(c *Ctx, id string) {
	rule := c.R.Rule(id, "every round up to the current one has vote sets: HeightVoteSet.SetRound runs addRound for r = hvs.round+1 .. round inclusive (callers pass round+1: with an exclusive bound no round above 0 is ever created, votes survive only through the two-per-peer catch-up allowance and then vanish, and no timeout is pending)", 1)
	if f := c.Anchor(rule, "gemmill/consensus/pbft.(*HeightVoteSet).SetRound"); f != nil {
		loopVar := "phi((a0.round + 1)|(loop + 1))"
		cs := f.CallsTo(cfgx.Named("gemmill/consensus/pbft.(*HeightVoteSet).addRound"))
		ok := len(cs) == 1
		for _, ci := range cs {
			ok = ok && callArg(ci, 1) == loopVar && f.HasGuard(ci.(ssa.Instruction), eqs("("+loopVar+" <= a1)"))
		}
		c.R.Ob(rule, "SetRound:all-rounds-up-to-target-inclusive", ok, c.P.Pos(f.F.Pos()), fname(f), "")
	}
}

// shared runs rule functions of another property inside the current report under a prefixed id
// ("C01/C04.R5"): the clause they decide is also a necessary condition of the current property.
func shared(c *Ctx, from string, fns ...func(*Ctx)) {
	old := c.R.IDPrefix
	c.R.IDPrefix = from + "."
	for _, f := range fns {
		f(c)
	}
	c.R.IDPrefix = old
}

// c12R12: a peer's answer to our +2/3 query corrects our picture of what it holds.  PickSendVote marks a
// vote as delivered whether or not the send succeeded; the only path that offers a lost vote again is
// ApplyVoteSetBitsMessage clearing, for the votes we hold, every bit the peer's answer does not
// confirm: votes := (votes − ourVotes) ∪ msg.Votes.  Without the subtraction the bits only ever grow
// and a peer that lost votes for the decided block is never served again.
func c12R12(c *Ctx) {
	rule := c.R.Rule("R12", "vote-set-bits answers can clear bits: in PeerState.ApplyVoteSetBitsMessage, when our own vote bit array is given, the value installed by votes.Update is Or(Sub(votes, ourVotes), msg.Votes) — the bits for votes we hold are replaced by the peer's answer, so a vote marked as sent but lost is offered again", 1)
	f := c.Anchor(rule, "gemmill/consensus/pbft.(*PeerState).ApplyVoteSetBitsMessage")
	if f == nil {
		return
	}
	const ba = "gemmill/modules/go-common.(*BitArray)."
	asCall := func(v ssa.Value, name string) *ssa.Call {
		if cl, ok := v.(*ssa.Call); ok && cfgx.CalleeName(cl) == ba+name {
			return cl
		}
		return nil
	}
	n, good := 0, 0
	var at ssa.Instruction
	for _, u := range f.CallsTo(cfgx.Named(ba + "Update")) {
		uc := u.Common()
		if len(uc.Args) != 2 {
			continue
		}
		// the branch with our own votes present: not under (a2 == nil)
		if f.HasGuard(u.(ssa.Instruction), cfgx.Equals("(a2 == nil)")) {
			continue
		}
		n++
		at = u.(ssa.Instruction)
		or := asCall(uc.Args[1], "Or")
		if or == nil {
			continue
		}
		sub := asCall(or.Call.Args[0], "Sub")
		other := or.Call.Args[1]
		if sub == nil {
			// Or is symmetric
			sub = asCall(or.Call.Args[1], "Sub")
			other = or.Call.Args[0]
		}
		if sub == nil {
			continue
		}
		if sub.Call.Args[0] == uc.Args[0] && cfgx.Expr(sub.Call.Args[1]) == "a2" && cfgx.Expr(other) == "a1.Votes" {
			good++
		}
	}
	if n == 0 {
		c.R.Undecided(rule, "merge-with-own-votes", c.P.Pos(f.F.Pos()), fname(f), "no votes.Update on the branch where our own votes are given")
		return
	}
	c.R.Ob(rule, "merge=(votes−ours)∪answer", good == n, c.Pos(at), fname(f), "the peer's answer can only set bits in our picture of what it holds: a vote that was marked as sent but never arrived is not offered again, and a peer lacking +2/3 for the decided block never commits")
}

// c20R12: messages are handed to the reactors in arrival order and before their buffer is reused.
// Channel.recvMsgPacket returns the channel's reassembly buffer and resets it with [:0]; the next
// packet of the same channel overwrites it.  recvRoutine therefore has to finish onReceive before it
// reads the next packet: a `go c.onReceive(...)` loses both the order and the content.
func c20R12(c *Ctx) {
	rule := c.R.Rule("R12", "in-order, unshared delivery: MConnection.recvRoutine invokes the connection's onReceive callback synchronously (a call, not a go statement, not deferred): the byte slice it passes is the channel's reassembly buffer, reused for the next message", 1)
	f := c.Anchor(rule, "gemmill/p2p.(*MConnection).recvRoutine")
	if f == nil {
		return
	}
	n := 0
	for _, ci := range f.Calls() {
		cc := ci.Common()
		if cc.IsInvoke() || cc.StaticCallee() != nil {
			continue
		}
		if !strings.HasSuffix(cfgx.Expr(cc.Value), ".onReceive") {
			continue
		}
		n++
		_, isCall := ci.(*ssa.Call)
		c.R.Ob(rule, "onReceive:synchronous", isCall, c.Pos(ci), fname(f), "the handler runs concurrently with the reading of the next packet: the reassembly buffer it was given is overwritten under it, and consecutive messages of a channel are handled out of order")
	}
	if n == 0 {
		c.R.Undecided(rule, "onReceive", c.P.Pos(f.F.Pos()), fname(f), "no delivery to onReceive found in recvRoutine")
	}
}

// c20R13: only a current *authority* vouches for a peer.  The CA filter accepts a certificate when
// some validator's key verifies it; that validator must be marked IsCA on the path to the accepting
// return.
func c20R13(c *Ctx) {
	rule := c.R.Rule("R13", "authority only: in the closure returned by authByCA every PubKey.VerifyBytes over the peer's certificate is edge-dominated by the candidate validator's IsCA flag being set", 1)
	f := c.Anchor(rule, "gemmill.authByCA")
	if f == nil {
		return
	}
	n := 0
	for _, an := range f.F.AnonFuncs {
		af := c.Fn(an)
		for _, ci := range af.Calls() {
			if !strings.HasSuffix(cfgx.CalleeName(ci), ".VerifyBytes") {
				continue
			}
			n++
			ok := false
			for _, g := range af.AllGuardForms(ci.(ssa.Instruction)) {
				if strings.HasSuffix(g, ".IsCA") && !strings.HasPrefix(g, "!") {
					ok = true
				}
			}
			c.R.Ob(rule, "VerifyBytes⊣IsCA", ok, c.Pos(ci), fname(af), "a certificate signed by any validator (not only by a certificate authority) admits the peer; guards: "+shorten(guardsText(af, ci.(ssa.Instruction))))
		}
	}
	if n == 0 {
		c.R.Undecided(rule, "VerifyBytes", c.P.Pos(f.F.Pos()), fname(f), "the CA filter verifies no signature")
	}
}

// c03R8: the watermark is read back from the very file save() writes.  WriteFileAtomic leaves other
// files next to it (path.new while writing, path.bak = the version before the last write); a loader
// that falls back to one of them restarts the signer with a watermark older than a signature it
// already released.
func c03R8(c *Ctx) {
	rule := c.R.Rule("R8", "load what was saved: LoadPrivValidator passes its path argument unchanged to whatever reads the file (no string derived from the path — path+\".bak\", path+\".new\" — is handed to a callee), and the loaded validator's filePath is that same argument", 2)
	f := c.Anchor(rule, "gemmill/types.LoadPrivValidator")
	if f == nil {
		return
	}
	reads, derived := 0, ""
	var at ssa.Instruction
	for _, ci := range f.Calls() {
		for _, a := range ci.Common().Args {
			if b, ok := a.Type().Underlying().(*types.Basic); !ok || b.Kind() != types.String {
				continue
			}
			e := cfgx.Expr(a)
			if e == "a0" {
				reads++
			} else if strings.Contains(e, "a0") && !strings.HasPrefix(cfgx.CalleeName(ci), "gemmill/modules/go-log.") && !strings.HasPrefix(cfgx.CalleeName(ci), "fmt.") && !strings.HasPrefix(cfgx.CalleeName(ci), "errors.") {
				derived = e
				at = ci.(ssa.Instruction)
			}
		}
	}
	pos := c.P.Pos(f.F.Pos())
	if at != nil {
		pos = c.Pos(at)
	}
	c.R.Ob(rule, "LoadPrivValidator:reads-only-its-path", reads >= 1 && derived == "", pos, fname(f), "the signer state is (also) read from "+derived+": a copy that is at least one write behind the file save() maintains, i.e. a watermark older than the last released signature")
	okPath := false
	for _, st := range f.Stores(func(a string) bool { return strings.HasSuffix(a, ".filePath") }) {
		if cfgx.Expr(st.Val) == "a0" {
			okPath = true
		}
	}
	c.R.Ob(rule, "LoadPrivValidator:filePath=path", okPath, c.P.Pos(f.F.Pos()), fname(f), "the loaded validator persists to a different file than it was read from")
}

// c07R12: one marker per height.  The constructor's updateToState runs newStep, which logs the
// NewHeight step — and with it a `#HEIGHT: h` marker — whenever a WAL is open.  The WAL is therefore
// opened after it; OnStart writes the marker only when the search finds none.  A marker appended on
// every restart lands, after a rotation, in the new head, where Group.Search finds it first and the
// replay skips every record of the height that is in the rotated file.
func c07R12(c *Ctx) {
	rule := c.R.Rule("R12", "one marker per height: in NewConsensusState no updateToState (→ newStep → WAL.Save) is reachable after OpenWAL, so constructing the state machine never appends to the log; the start-up marker is written by OnStart only under `Search found nothing`", 2)
	f := c.Anchor(rule, "gemmill/consensus/pbft.NewConsensusState")
	if f == nil {
		return
	}
	opens := f.CallsTo(cfgx.Named(csT + ".OpenWAL"))
	ups := f.CallsTo(cfgx.Named(csT + ".updateToState"))
	if len(ups) == 0 {
		c.R.Undecided(rule, "NewConsensusState:updateToState", c.P.Pos(f.F.Pos()), fname(f), "the constructor no longer calls updateToState")
		return
	}
	ok := true
	var at ssa.Instruction = ups[0].(ssa.Instruction)
	for _, o := range opens {
		for _, u := range ups {
			if f.Reaches(o.(ssa.Instruction), u.(ssa.Instruction)) {
				ok = false
				at = u.(ssa.Instruction)
			}
		}
	}
	c.R.Ob(rule, "NewConsensusState:no-step-logged-by-constructor", ok, c.Pos(at), fname(f), "updateToState runs with the WAL already open: every restart appends another `#HEIGHT: h` marker; after a rotation the newest one hides the records of the height in the rotated file from the replay")
	if g := c.Anchor(rule, csT+".OnStart"); g != nil {
		n, good, whyNot := 0, 0, ""
		for _, s := range g.CallsTo(cfgx.Named(walT + ".Save")) {
			n++
			ok, why := everyPath(g, s.(ssa.Instruction), func(gm map[string]bool) bool {
				for k := range gm {
					if !strings.Contains(k, ".Search(") {
						continue
					}
					if strings.HasSuffix(k, "#2 == g:io.EOF)") && !strings.HasPrefix(k, "!") {
						return true
					}
					if strings.HasPrefix(k, "!") && strings.HasSuffix(k, "#1") {
						return true
					}
				}
				return false
			})
			if ok {
				good++
			} else {
				whyNot = shorten(why)
			}
		}
		c.R.Ob(rule, "OnStart:marker-only-when-missing", n >= 1 && good == n, c.P.Pos(g.F.Pos()), fname(g), fmt.Sprintf("%d WAL.Save call(s) in OnStart, %d reached only when the marker search hit EOF or found nothing; %s", n, good, whyNot))
	}
}

// c16R11: what a proposer pays is the set's total power.  IncrementAccum adds power*times to every
// accum and then, `times` times, subtracts the total voting power from the current maximum: the sum
// of the accums is conserved.  Any other subtrahend (e.g. the sum of the per-validator increments,
// which is times*total) makes a batched IncrementAccum(k) differ from replicas that skipped the
// rounds one by one.
func c16R11(c *Ctx) {
	rule := c.R.Rule("R11", "rotation arithmetic: in ValidatorSet.IncrementAccum every store to a validator's Accum is either Accum + VotingPower*times or Accum − TotalVotingPower() of the receiver", 2)
	f := c.Anchor(rule, valsT+".IncrementAccum")
	if f == nil {
		return
	}
	strip := func(v ssa.Value) ssa.Value {
		for {
			switch x := v.(type) {
			case *ssa.Convert:
				v = x.X
			case *ssa.ChangeType:
				v = x.X
			default:
				return v
			}
		}
	}
	n := 0
	for _, st := range f.Stores(func(a string) bool { return strings.HasSuffix(a, ".Accum") }) {
		n++
		bo, _ := strip(st.Val).(*ssa.BinOp)
		if bo == nil {
			c.R.Ob(rule, fmt.Sprintf("accum-store#%d", n), false, c.Pos(st), fname(f), "Accum is assigned "+shorten(exprOf(st.Val)))
			continue
		}
		y := exprOf(strip(bo.Y))
		switch bo.Op {
		case token.ADD:
			ok := false
			for _, side := range []ssa.Value{bo.Y, bo.X} {
				if m, isM := strip(side).(*ssa.BinOp); isM && m.Op == token.MUL {
					a, b := exprOf(strip(m.X)), exprOf(strip(m.Y))
					if (strings.HasSuffix(a, ".VotingPower") && b == "a1") || (strings.HasSuffix(b, ".VotingPower") && a == "a1") {
						ok = true
					}
				}
			}
			c.R.Ob(rule, "accum+=power*times", ok, c.Pos(st), fname(f), "the increment is "+shorten(y))
		case token.SUB:
			c.R.Ob(rule, "accum-=total-power", y == "gemmill/types.(*ValidatorSet).TotalVotingPower(a0)", c.Pos(st), fname(f), "the selected validator pays "+shorten(y)+" instead of the set's total voting power: the accum sum is not conserved and a batched IncrementAccum(k) diverges from k single steps")
		default:
			c.R.Ob(rule, fmt.Sprintf("accum-store#%d", n), false, c.Pos(st), fname(f), "Accum is assigned "+shorten(exprOf(st.Val)))
		}
	}
	c.R.Ob(rule, "accum-stores", n == 2, c.P.Pos(f.F.Pos()), fname(f), fmt.Sprintf("%d stores to Accum", n))
}

// nilAfterErrorEdge walks forward from successor `k` of `iff` and reports a return whose error result
// (last result) is the constant nil on some path from that edge; phis are resolved by the edge taken.
func nilAfterErrorEdge(fn *ssa.Function, iff *ssa.If, k int) *ssa.Return {
	type state struct {
		blk, pred *ssa.BasicBlock
		res       map[*ssa.Phi]ssa.Value
	}
	var found *ssa.Return
	seen := map[[2]int]bool{}
	var walk func(st state, depth int)
	resolve := func(res map[*ssa.Phi]ssa.Value, v ssa.Value) ssa.Value {
		for i := 0; i < 8; i++ {
			ph, ok := v.(*ssa.Phi)
			if !ok {
				return v
			}
			r, ok := res[ph]
			if !ok {
				return v
			}
			v = r
		}
		return v
	}
	walk = func(st state, depth int) {
		if found != nil || depth > 64 {
			return
		}
		key := [2]int{st.blk.Index, st.pred.Index}
		if seen[key] {
			return
		}
		seen[key] = true
		res := map[*ssa.Phi]ssa.Value{}
		for k, v := range st.res {
			res[k] = v
		}
		pi := -1
		for i, p := range st.blk.Preds {
			if p == st.pred {
				pi = i
			}
		}
		for _, ins := range st.blk.Instrs {
			if ph, ok := ins.(*ssa.Phi); ok && pi >= 0 {
				res[ph] = resolve(st.res, ph.Edges[pi])
			}
		}
		if r, ok := st.blk.Instrs[len(st.blk.Instrs)-1].(*ssa.Return); ok && len(r.Results) > 0 {
			v := resolve(res, r.Results[len(r.Results)-1])
			if cst, isC := v.(*ssa.Const); isC && cst.IsNil() {
				found = r
			}
			return
		}
		for _, s := range st.blk.Succs {
			walk(state{s, st.blk, res}, depth+1)
		}
	}
	walk(state{iff.Block().Succs[k], iff.Block(), map[*ssa.Phi]ssa.Value{}}, 0)
	return found
}

// c19R9: a transaction that was not queued is reported as such.  txSortedMap.Add refuses a second
// transaction for a nonce it already holds; addWaiting must hand that error to its caller — a nil
// return makes receiveTx keep the transaction in tp.all (and gossip it) although no queue holds it:
// it is never offered, never removed, and counts against the pool size for ever.
func c19R9(c *Ctx) {
	rule := c.R.Rule("R9", "a refused insertion is reported: in ethTxPool.addWaiting no path from the failing edge of txSortedMap.Add (error != nil) reaches a return whose error is nil, and the same holds for the failing edge of TryReplace when the waiting queue is full", 2)
	f := c.Anchor(rule, "chain/app/evm.(*ethTxPool).addWaiting")
	if f == nil {
		return
	}
	n := 0
	for _, b := range f.F.Blocks {
		iff, ok := b.Instrs[len(b.Instrs)-1].(*ssa.If)
		if !ok {
			continue
		}
		// err != nil / err == nil over the result of Add
		if bo, ok := iff.Cond.(*ssa.BinOp); ok && (bo.Op == token.NEQ || bo.Op == token.EQL) {
			var cl *ssa.Call
			if x, ok := bo.X.(*ssa.Call); ok && cfgx.IsNilConst(bo.Y) {
				cl = x
			} else if y, ok := bo.Y.(*ssa.Call); ok && cfgx.IsNilConst(bo.X) {
				cl = y
			}
			if cl != nil && cfgx.CalleeName(cl) == "chain/app/evm.(*txSortedMap).Add" {
				n++
				k := 0
				if bo.Op == token.EQL {
					k = 1
				}
				r := nilAfterErrorEdge(f.F, iff, k)
				pos := c.Pos(cl)
				if r != nil {
					pos = c.Pos(r)
				}
				c.R.Ob(rule, "addWaiting:Add-error-reported", r == nil, pos, fname(f), "the error of txSortedMap.Add (nonce already queued) is lost: the caller keeps a transaction that is in no queue")
			}
		}
		// the full-queue branch: !TryReplace(tx) → error
		var tr *ssa.Call
		neg := false
		switch x := iff.Cond.(type) {
		case *ssa.Call:
			tr = x
		case *ssa.UnOp:
			if x.Op == token.NOT {
				if cl, ok := x.X.(*ssa.Call); ok {
					tr, neg = cl, true
				}
			}
		}
		if tr != nil && cfgx.CalleeName(tr) == "chain/app/evm.(*txSortedMap).TryReplace" {
			n++
			k := 1 // false edge of `TryReplace(tx)` = not replaced
			if neg {
				k = 0
			}
			r := nilAfterErrorEdge(f.F, iff, k)
			pos := c.Pos(tr)
			if r != nil {
				pos = c.Pos(r)
			}
			c.R.Ob(rule, "addWaiting:queue-full-reported", r == nil, pos, fname(f), "a transaction that found the waiting queue full and replaced nothing is reported as accepted")
		}
	}
	c.R.Ob(rule, "addWaiting:refusal-edges", n >= 2, c.P.Pos(f.F.Pos()), fname(f), fmt.Sprintf("%d refusal edges found (Add error, TryReplace false)", n))
}
