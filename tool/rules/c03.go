package rules

import (
	"fmt"
	"strings"

	"golang.org/x/tools/go/ssa"

	"annverif/cfgx"
	"annverif/core"
	"annverif/dtable"
)

func init() {
	Registry["C03"] = c03
	Metas["C03"] = Meta{Level: "other", NeedCG: true, Technique: "static analysis: call-graph who-may-call, finite-domain decision table of the signer extracted from SSA, dominance / edge-dominance of persist-before-release",
		Explain: "Static analysis of the signer. Decided: (R1) who may call a private-key Sign in node code; (R2) the height/round/step decision table of signBytesHRS, extracted exhaustively over the finite domain of orderings (3x3x3 x nil-ness x equality = 216 abstract states) and compared with the specification table; (R3) on every path of signBytesHRS that returns a fresh signature the five watermark fields are stored, save() is called, and its error is tested before the signature is released; save() propagates the atomic write's error; WriteFileAtomic writes the target only by rename after a successful temp write; (R4) a refused signature reaches neither a no-return call nor the internal message queue; (R5) the check-sign-persist sequence runs under the signer's mutex without releasing it, and a failed save restores all five watermark fields to their pre-update values. (R3 also) after the rename WriteFileAtomic hands back the rename's own error. NOT decided: durability under power loss (no fsync), the file system's rename semantics, and the behaviour over actual histories — this check decides these structural clauses and not the behaviour.",
		Assume:  []string{"process-crash model: rename(2) after a completed write is atomic", "go/ssa faithfully represents the source", "lexicographic H/R/S comparison uses only the comparisons present in signBytesHRS (any other branch condition forks both ways)"},
	}
}

const pvType = "gemmill/types.(*PrivValidator)"

func c03(c *Ctx) {
	c03R1(c)
	c03R2(c)
	c03R3(c)
	c03R4(c)
	c03R5(c)
	c03R6(c)
	c03R7(c)
	c03R8(c)
	shared(c, "C18", c18R3)
}

// R1 ---------------------------------------------------------------------------------------------
func c03R1(c *Ctx) {
	rule := c.R.Rule("R1", "who-may-sign: in node packages (everything except cmd/client and scripts, which are client tools signing user-supplied keys) a private-key Sign (crypto.PrivKey.Sign, its implementations, types.Signer.Sign, DefaultSigner.Sign) is called only from the reviewed sites; signBytesHRS is called only from SignVote/SignProposal", 5)
	isSign := func(n string) bool {
		switch n {
		case "iface:gemmill/go-crypto.PrivKey.Sign", "gemmill/go-crypto.(PrivKeyEd25519).Sign", "gemmill/go-crypto.(PrivKeySecp256k1).Sign",
			"gemmill/go-crypto.(*PrivKeyEd25519).Sign", "gemmill/go-crypto.(*PrivKeySecp256k1).Sign",
			"iface:gemmill/types.Signer.Sign", "gemmill/types.(*DefaultSigner).Sign",
			"gemmill/types.(*PrivValidator).Sign", "gemmill/types.(PrivValidator).Sign":
			return true
		}
		return false
	}
	// allowed caller -> reason
	allowed := map[string]string{
		"gemmill/types.(*DefaultSigner).Sign":           "the Signer implementation itself",
		"gemmill/types.(*PrivValidator).signBytesHRS":   "the guarded signing path",
		"gemmill/p2p.signChallenge":                     "32-byte SHA-256 handshake challenge; cannot parse as canonical JSON sign-bytes",
		"gemmill/consensus/raft.(*ConsensusState).sign": "raft mode signs a block hash into Header.Extra (not a PBFT vote/proposal)",
		"gemmill/types.SignCA":                          "offline CA tool: signs pubkey bytes",
		"gemmill/go-crypto.(PrivKeySecp256k1).Sign":     "implementation detail (btcec Sign on a hash) — not a PrivKey.Sign",
	}
	for _, s := range c.AllCalls(isSign) {
		caller := core.Short(fname(s.Fn))
		if inPkgs(caller, "cmd/client/", "scripts/") {
			continue
		}
		// promoted-method wrappers synthesised by the compiler are not call sites in source
		if s.Fn.F.Synthetic != "" {
			continue
		}
		_, ok := allowed[caller]
		c.R.Ob(rule, "sign-call-in:"+caller, ok, c.Pos(s.Call), fname(s.Fn),
			fmt.Sprintf("call of %s; allowed callers: signBytesHRS, DefaultSigner.Sign, p2p.signChallenge, raft proposeBlock, SignCA", s.Name))
	}
	callers := map[string]bool{}
	for _, s := range c.AllCalls(cfgx.Named(pvType + ".signBytesHRS")) {
		caller := core.Short(fname(s.Fn))
		callers[caller] = true
		ok := caller == pvType+".SignVote" || caller == pvType+".SignProposal"
		c.R.Ob(rule, "signBytesHRS-called-from:"+caller, ok, c.Pos(s.Call), fname(s.Fn), "signBytesHRS may be entered only through SignVote/SignProposal (which hold privVal.mtx)")
	}
	// both entry points take the mutex before calling
	for _, n := range []string{"SignVote", "SignProposal"} {
		f := c.Anchor(rule, pvType+"."+n)
		if f == nil {
			continue
		}
		locks := f.CallsTo(cfgx.Named("sync.(*Mutex).Lock"))
		calls := f.CallsTo(cfgx.Named(pvType + ".signBytesHRS"))
		ok := len(locks) > 0 && len(calls) > 0
		for _, cl := range calls {
			dom := false
			for _, l := range locks {
				if strings.HasSuffix(callArg(l, 0), ".mtx") && f.Dominates(l, cl) {
					dom = true
				}
			}
			ok = ok && dom
		}
		c.R.Ob(rule, n+":mtx.Lock≺signBytesHRS", ok, c.P.Pos(f.F.Pos()), fname(f), "the signer mutex must be taken before the regression check")
	}
}

// R2 ---------------------------------------------------------------------------------------------
func c03R2(c *Ctx) {
	rule := c.R.Rule("R2", "decision table of signBytesHRS over (LastHeight?height, LastRound?round, LastStep?step, LastSignBytes nil?, LastSignature nil?, bytes.Equal): Sign is called iff (H,R,S) is lexicographically newer; identical HRS with stored identical sign-bytes returns the stored signature without signing; every other state returns (nil, error) with neither Sign nor save", 216)
	f := c.Anchor(rule, pvType+".signBytesHRS")
	if f == nil {
		return
	}
	atoms := []dtable.Atom{
		{Name: "H", Kind: dtable.Cmp, X: "a0.LastHeight", Y: "a1"},
		{Name: "R", Kind: dtable.Cmp, X: "a0.LastRound", Y: "a2"},
		{Name: "S", Kind: dtable.Cmp, X: "a0.LastStep", Y: "a3"},
		{Name: "B", Kind: dtable.Nil, X: "a0.LastSignBytes"},
		{Name: "G", Kind: dtable.Nil, X: "a0.LastSignature"},
		{Name: "E", Kind: dtable.Bool, X: "bytes.Equal(a0.LastSignBytes,a4)"},
	}
	isSignCall := func(n string) bool {
		return n == "iface:gemmill/types.Signer.Sign" || strings.HasSuffix(n, ".Sign")
	}
	tab, err := dtable.Extract(dtable.Spec{
		Fn: f, Atoms: atoms,
		Event: func(ins ssa.Instruction) string {
			ci, ok := ins.(ssa.CallInstruction)
			if !ok {
				return ""
			}
			n := cfgx.CalleeName(ci)
			switch {
			case isSignCall(n):
				return "SIGN"
			case n == pvType+".save":
				return "SAVE"
			}
			return ""
		},
		RetClass: func(v ssa.Value) string {
			e := cfgx.Expr(v)
			switch {
			case e == "nil":
				return "nil"
			case e == "a0.LastSignature":
				return "STORED"
			case strings.Contains(e, ".Sign("):
				return "FRESH"
			case strings.HasPrefix(e, "errors.New(") || strings.HasPrefix(e, "fmt.Errorf("):
				return "err"
			}
			return "other(" + e + ")"
		},
	})
	if err != nil {
		c.R.Undecided(rule, "table", c.P.Pos(f.F.Pos()), fname(f), err.Error())
		return
	}
	c.R.Extra["C03_R2_table_states"] = len(tab.Rows)
	c.R.Extra["exhaustive"] = true
	for _, row := range tab.Rows {
		st := row.State
		want := ""
		lexi := st["H"]
		if lexi == dtable.EQ {
			lexi = st["R"]
			if lexi == dtable.EQ {
				lexi = st["S"]
			}
		}
		switch {
		case lexi == dtable.LT:
			want = "sign"
		case lexi == dtable.GT:
			want = "error"
		default:
			switch {
			case st["B"] == dtable.NIL:
				want = "error"
			case st["G"] == dtable.NIL:
				want = "panic"
			case st["E"] == dtable.T:
				want = "stored"
			default:
				want = "error"
			}
		}
		ok := len(row.Outcomes) > 0
		fresh := false
		for _, o := range row.Outcomes {
			switch want {
			case "sign":
				// SIGN then SAVE, then either the fresh signature or (nil, error-from-save)
				if !strings.HasPrefix(o, "SIGN → SAVE → return:") {
					ok = false
				}
				if strings.HasSuffix(o, "return:FRESH,nil") {
					fresh = true
				} else if !strings.HasSuffix(o, ",nil") && strings.HasPrefix(o, "SIGN → SAVE → return:nil,") {
					// error return after failed save: fine
				} else {
					ok = false
				}
			case "error":
				if o != "return:nil,err" {
					ok = false
				}
			case "stored":
				if o != "return:STORED,nil" {
					ok = false
				}
			case "panic":
				if !strings.HasPrefix(o, "noreturn:") {
					ok = false
				}
			}
		}
		if want == "sign" && !fresh {
			ok = false
		}
		c.R.Ob(rule, "state:"+tab.StateString(st), ok, c.P.Pos(f.F.Pos()), fname(f),
			fmt.Sprintf("spec=%s extracted=%v", want, row.Outcomes))
	}
}

// R3 ---------------------------------------------------------------------------------------------
func c03R3(c *Ctx) {
	rule := c.R.Rule("R3", "persist-before-release: every return of a fresh signature in signBytesHRS is preceded (dominated), in this order, by Sign, the stores of all five watermark fields and save(); and is edge-dominated by a nil test of save()'s error. save() returns WriteFileAtomic's error. WriteFileAtomic touches the target path only through os.Rename(path+\".new\", path) after a successful write of path+\".new\"", 10)
	f := c.Anchor(rule, pvType+".signBytesHRS")
	if f != nil {
		saves := f.CallsTo(cfgx.Named(pvType + ".save"))
		signs := f.CallsTo(func(n string) bool {
			return n == "iface:gemmill/types.Signer.Sign" || n == "gemmill/types.(*DefaultSigner).Sign"
		})
		nFresh := 0
		for _, ret := range f.Returns() {
			if len(ret.Results) != 2 || !strings.Contains(cfgx.Expr(ret.Results[0]), ".Sign(") {
				continue
			}
			nFresh++
			// Sign dominates
			var sign ssa.CallInstruction
			for _, s := range signs {
				if f.Dominates(s, ret) {
					sign = s
				}
			}
			c.R.Ob(rule, "fresh-return:Sign-dominates", sign != nil, c.Pos(ret), fname(f), "the returned signature must come from the Sign call on this path")
			var save ssa.CallInstruction
			for _, s := range saves {
				if f.Dominates(s, ret) {
					save = s
				}
			}
			c.R.Ob(rule, "fresh-return:save-dominates", save != nil, c.Pos(ret), fname(f), "save() must be called on every path to the return that releases the signature")
			for _, fld := range []string{"LastHeight", "LastRound", "LastStep", "LastSignature", "LastSignBytes"} {
				ok := false
				if save != nil {
					for _, st := range f.FieldStores("gemmill/types.PrivValidator", fld) {
						if f.Dominates(st, save) && (sign == nil || fld != "LastSignature" || f.Dominates(sign, st)) {
							ok = true
						}
					}
				}
				c.R.Ob(rule, "fresh-return:store-"+fld+"≺save", ok, c.Pos(ret), fname(f), "watermark field must be stored before save() on the signing path")
			}
			// the error of save is tested
			ok := false
			if save != nil {
				sv := save.(*ssa.Call)
				ok = f.HasGuard(ret, func(g string) bool {
					return g == "("+cfgx.Expr(sv)+" == nil)"
				})
			}
			c.R.Ob(rule, "fresh-return⊣save-error-nil", ok, c.Pos(ret), fname(f),
				"the signature is released although save() may have failed: the return must be edge-dominated by `save() == nil`; "+guardsText(f, ret))
		}
		if nFresh == 0 {
			c.R.Undecided(rule, "fresh-return", c.P.Pos(f.F.Pos()), fname(f), "no return of a fresh signature found")
		}
	}
	// save(): the error of WriteFileAtomic reaches the caller
	if s := c.Anchor(rule, pvType+".save"); s != nil {
		wfa := s.CallsTo(cfgx.Named("gemmill/modules/go-common.WriteFileAtomic"))
		c.R.Ob(rule, "save:calls-WriteFileAtomic", len(wfa) == 1, c.P.Pos(s.F.Pos()), fname(s), "save must write through WriteFileAtomic exactly once")
		if len(wfa) == 1 {
			w := wfa[0].(*ssa.Call)
			for _, ret := range s.Returns() {
				if !s.Dominates(w, ret) {
					continue
				}
				e := cfgx.Expr(ret.Results[0])
				ok := e == cfgx.Expr(w) || (e == "nil" && s.HasGuard(ret, cfgx.Equals("("+cfgx.Expr(w)+" == nil)")))
				c.R.Ob(rule, "save:return-after-write", ok, c.Pos(ret), fname(s), "a return after the write must return the write's error, or nil only under `err == nil`; returns "+e+"; "+guardsText(s, ret))
			}
			// filePath argument is the signer file
			c.R.Ob(rule, "save:path-arg", callArg(w, 0) == "a0.filePath", c.Pos(w), fname(s), "WriteFileAtomic must be given privVal.filePath, got "+callArg(w, 0))
		}
	}
	// WriteFileAtomic
	if w := c.Anchor(rule, "gemmill/modules/go-common.WriteFileAtomic"); w != nil {
		var rename, tmpWrite ssa.CallInstruction
		for _, ci := range w.Calls() {
			n := cfgx.CalleeName(ci)
			switch n {
			case "io/ioutil.WriteFile", "os.WriteFile", "os.OpenFile", "os.Create", "os.Truncate", "os.Remove":
				arg := callArg(ci, 0)
				if arg == "a0" {
					c.R.Ob(rule, "WriteFileAtomic:direct-write:"+n, false, c.Pos(ci), fname(w), "the target path itself must never be written/truncated/removed directly (non-atomic)")
				}
				if n != "os.Remove" && arg == `(a0 + ".new")` {
					tmpWrite = ci
				}
			case "os.Rename":
				if callArg(ci, 0) == `(a0 + ".new")` && callArg(ci, 1) == "a0" {
					rename = ci
				}
			}
		}
		c.R.Ob(rule, "WriteFileAtomic:temp-write", tmpWrite != nil, c.P.Pos(w.F.Pos()), fname(w), "new content must be written to path+\".new\"")
		c.R.Ob(rule, "WriteFileAtomic:rename", rename != nil, c.P.Pos(w.F.Pos()), fname(w), "path+\".new\" must be renamed onto path")
		if rename != nil && tmpWrite != nil {
			tw, _ := tmpWrite.(*ssa.Call)
			ok := tw != nil && w.Dominates(tmpWrite, rename) && w.HasGuard(rename, cfgx.Equals("("+cfgx.Expr(tw)+" == nil)"))
			c.R.Ob(rule, "WriteFileAtomic:rename⊣temp-write-ok", ok, c.Pos(rename), fname(w), "rename only after the temp write succeeded; "+guardsText(w, rename))
			// content written is the new bytes
			c.R.Ob(rule, "WriteFileAtomic:temp-content", callArg(tmpWrite, 1) == "a1", c.Pos(tmpWrite), fname(w), "temp file must receive newBytes")
			// every nil-returning path passes rename
			rn := rename.(*ssa.Call)
			for _, ret := range w.Returns() {
				v := w.ReturnValues(ret)[0]
				e := cfgx.Expr(v)
				if e == "nil" || e == cfgx.Expr(rn) {
					ok := w.Dominates(rename, ret)
					c.R.Ob(rule, "WriteFileAtomic:success-return-after-rename", ok, c.Pos(ret), fname(w), "a success return must be dominated by the rename")
				}
				// what a return after the rename hands back is the rename's own error (or a literal nil under `rename == nil`)
				if w.Dominates(rename, ret) {
					ok := e == cfgx.Expr(rn) || strings.HasPrefix(e, "fmt.Errorf(") || (e == "nil" && w.HasGuard(ret, cfgx.Equals("("+cfgx.Expr(rn)+" == nil)")))
					c.R.Ob(rule, "WriteFileAtomic:returns-rename-error", ok, c.Pos(ret), fname(w), "after the rename the function must report the rename's error; it returns "+shorten(e)+" (a failed rename reported as success releases a signature whose watermark is not on disk)")
				}
			}
		}
	}
}

// R4 ---------------------------------------------------------------------------------------------
func c03R4(c *Ctx) { signTolerantRule(c, "R4") }

// signTolerantRule is shared by C03-R4 and C07-R5.
func signTolerantRule(c *Ctx, id string) {
	rule := c.R.Rule(id, "a refused signature is tolerated: in signAddVote / defaultDecideProposal every sendInternalMessage is edge-dominated by `sign error == nil`, and no no-return call is guarded by `sign error != nil`", 3)
	type spec struct{ fn, errFrag string }
	for _, sp := range []spec{
		{"gemmill/consensus/pbft.(*ConsensusState).signAddVote", ".signVote("},
		{"gemmill/consensus/pbft.(*ConsensusState).defaultDecideProposal", ".SignProposal("},
	} {
		f := c.Anchor(rule, sp.fn)
		if f == nil {
			continue
		}
		isErrNil := func(g string) bool { return strings.Contains(g, sp.errFrag) && strings.HasSuffix(g, " == nil)") }
		isErrNonNil := func(g string) bool { return strings.Contains(g, sp.errFrag) && strings.HasSuffix(g, " != nil)") }
		sends := f.CallsTo(cfgx.Named("gemmill/consensus/pbft.(*ConsensusState).sendInternalMessage"))
		if len(sends) == 0 {
			c.R.Undecided(rule, core.Short(sp.fn)+":send", c.P.Pos(f.F.Pos()), fname(f), "no sendInternalMessage found")
		}
		for _, s := range sends {
			c.R.Ob(rule, core.Short(sp.fn)+":send⊣sign-ok", f.HasGuard(s, isErrNil), c.Pos(s), fname(f), "message built from a signing attempt must be queued only when signing succeeded; "+guardsText(f, s))
		}
		bad := false
		var where ssa.Instruction
		for _, ci := range f.Calls() {
			if c.NR.IsNoRetCall(ci) && f.HasGuard(ci, isErrNonNil) {
				bad = true
				where = ci
			}
		}
		for _, b := range f.F.Blocks {
			for _, ins := range b.Instrs {
				if p, ok := ins.(*ssa.Panic); ok && f.Live(ins) && f.HasGuard(ins, isErrNonNil) {
					bad = true
					where = p
				}
			}
		}
		pos := c.P.Pos(f.F.Pos())
		if where != nil {
			pos = c.Pos(where)
		}
		c.R.Ob(rule, core.Short(sp.fn)+":no-fatal-on-sign-error", !bad, pos, fname(f), "a signing error (expected during WAL replay) must not reach a panic / no-return call")
	}
	// signVote forwards SignVote's error
	if f := c.Anchor(rule, "gemmill/consensus/pbft.(*ConsensusState).signVote"); f != nil {
		ok := false
		for _, ret := range f.Returns() {
			if len(ret.Results) == 2 && strings.Contains(cfgx.Expr(ret.Results[1]), ".SignVote(") {
				ok = true
			}
		}
		c.R.Ob(rule, "signVote:returns-SignVote-error", ok, c.P.Pos(f.F.Pos()), fname(f), "signVote must return the error of privValidator.SignVote")
	}
}

// R5: the watermark test, the signature and the persisted update form one critical section; a failed
// save rolls the whole in-memory watermark back.
func c03R5(c *Ctx) {
	rule := c.R.Rule("R5", "atomic check-sign-persist: every caller of signBytesHRS holds PrivValidator.mtx (Lock dominates the call, Unlock is deferred); neither signBytesHRS nor save()/Sign reachable from it releases that mutex; on the save-error path each of the five watermark fields is restored to the value it had before the update (a load that precedes the update store), and nothing else is stored to them", 9)
	f := c.Anchor(rule, pvType+".signBytesHRS")
	if f == nil {
		return
	}
	// (a) callers hold the lock
	ncall := 0
	for _, s := range c.AllCalls(cfgx.Named(pvType + ".signBytesHRS")) {
		ncall++
		locked, deferred := false, false
		for _, ci := range s.Fn.Calls() {
			m, acq, ok := isLockCall(ci)
			if !ok || m != "a0.mtx" {
				continue
			}
			if _, isDefer := ci.(*ssa.Defer); isDefer && !acq {
				deferred = true
			} else if acq && s.Fn.Dominates(ci.(ssa.Instruction), s.Call.(ssa.Instruction)) {
				locked = true
			} else if !acq {
				// an explicit unlock before the call releases the section
				if s.Fn.Reaches(ci.(ssa.Instruction), s.Call.(ssa.Instruction)) {
					locked = false
				}
			}
		}
		c.R.Ob(rule, "caller-holds-mtx:"+core.Short(fname(s.Fn)), locked && deferred, c.Pos(s.Call), fname(s.Fn), "signBytesHRS must run with the signer's mutex held until return (Lock before, deferred Unlock)")
	}
	c.R.Ob(rule, "signBytesHRS-callers", ncall >= 2, "-", "", fmt.Sprintf("%d", ncall))
	// (b) no lock operation on the signer's mutex inside the section
	for _, fn := range []*cfgx.Fn{f, c.Anchor(rule, pvType+".save")} {
		if fn == nil {
			continue
		}
		bad := ""
		for _, ci := range fn.Calls() {
			if m, _, ok := isLockCall(ci); ok && strings.HasSuffix(m, ".mtx") && strings.HasPrefix(m, "a0") {
				bad = c.Pos(ci)
			}
		}
		c.R.Ob(rule, "no-lock-op-inside:"+core.Short(fname(fn)), bad == "", c.P.Pos(fn.F.Pos()), fname(fn), "releasing (or re-taking) the signer's mutex between the watermark test and the persisted update lets a concurrent request pass the same test; at "+bad)
	}
	// (c) rollback on the save-error edge
	var save ssa.Instruction
	for _, ci := range f.CallsTo(cfgx.Named(pvType + ".save")) {
		save = ci
	}
	if save == nil {
		c.R.Undecided(rule, "rollback", c.P.Pos(f.F.Pos()), fname(f), "no save() call")
		return
	}
	saveExpr := exprOf(save.(ssa.Value))
	for _, fld := range []string{"LastHeight", "LastRound", "LastStep", "LastSignature", "LastSignBytes"} {
		var update *ssa.Store
		var restore *ssa.Store
		for _, st := range f.FieldStores("gemmill/types.PrivValidator", fld) {
			if f.Dominates(st, save) {
				update = st
			} else if f.HasGuard(st, eqs("("+saveExpr+" != nil)")) {
				restore = st
			}
		}
		ok := false
		detail := "no restoring store on the save-error path"
		if update != nil && restore != nil {
			if ld, isLoad := restore.Val.(*ssa.UnOp); isLoad {
				if fa, isFA := ld.X.(*ssa.FieldAddr); isFA && cfgx.IsField(fa, "gemmill/types.PrivValidator", fld) && exprOf(fa.X) == "a0" && f.Dominates(ld, update) {
					ok = true
				} else {
					detail = "restored from " + exprOf(restore.Val) + " which is not the pre-update value of this field"
				}
			} else {
				detail = "restored value is not a load of the field taken before the update"
			}
		}
		c.R.Ob(rule, "rollback:"+fld, ok, c.Pos(save), fname(f), "after a failed save the in-memory "+fld+" must again equal the file's (pre-update) value, otherwise the same-HRS branch hands out a signature that was never made durable: "+detail)
	}
}

// c03R6: the signer file is written only with state this process produced.
func c03R6(c *Ctx) {
	rule := c.R.Rule("R6", "no signature without a file, no stale write-back: save() returns a non-nil error when filePath is empty (a signer that cannot persist its watermark must not sign); LoadOrGenPrivValidator saves only a freshly generated validator — a Save() of a validator that was just loaded writes back the record read earlier, possibly over a newer one written by the running node", 2)
	if f := c.Anchor(rule, pvType+".save"); f != nil {
		n := 0
		for _, r := range f.Returns() {
			if !f.HasGuard(r, eqs(`(a0.filePath == "")`)) {
				continue
			}
			n++
			v := f.ReturnValues(r)[0]
			c.R.Ob(rule, "save:empty-path-is-an-error", !cfgx.IsNilConst(v), c.Pos(r), fname(f), "save() with no file path reports success: signBytesHRS then releases signatures that no durable watermark protects")
		}
		if n == 0 {
			c.R.Undecided(rule, "save:empty-path", c.P.Pos(f.F.Pos()), fname(f), "no return under filePath == \"\"")
		}
	}
	if f := c.Anchor(rule, "gemmill/types.LoadOrGenPrivValidator"); f != nil {
		var load ssa.Instruction
		for _, ci := range f.CallsTo(cfgx.Named("gemmill/types.LoadPrivValidator")) {
			load = ci
		}
		bad := ""
		for _, ci := range f.CallsTo(cfgx.Named(pvType+".Save", pvType+".save")) {
			if load != nil && f.Reaches(load, ci.(ssa.Instruction)) {
				bad = c.Pos(ci)
			}
		}
		c.R.Ob(rule, "LoadOrGen:no-Save-after-Load", load != nil && bad == "", c.P.Pos(f.F.Pos()), fname(f), "Save() at "+bad+" is reachable after LoadPrivValidator: the loaded (possibly already outdated) record is written back")
	}
}
