// Package equiv: E5 — translation validation of the in-tree go-ethereum copy against the reference
// module (github.com/ethereum/go-ethereum v1.8.27 in the module cache).
//
// Two declarations are EQUIVALENT when (1) their token sequences (go/scanner, comments and
// whitespace ignored) are identical and (2) every identifier resolves, position by position, to
// corresponding objects: locals to locals, universe to universe, and package-level objects / fields /
// methods to objects of the same name in corresponding packages, where in-tree path
// github.com/dappledger/AnnChain/eth/X corresponds to github.com/ethereum/go-ethereum/X and any
// other path corresponds to itself. Referenced objects of the eth tree are then compared in turn
// (constants by exact value, functions/vars/types by the same procedure), to a fixed point.
// The procedure is sound (an "equivalent" verdict implies identical source semantics under the Go
// spec, modulo the opaque packages listed by the caller) and incomplete.
package equiv

import (
	"bytes"
	"fmt"
	"go/ast"
	"go/printer"
	"go/scanner"
	"go/token"
	"go/types"
	"sort"
	"strings"

	"golang.org/x/tools/go/packages"
)

const RepoEth = "github.com/dappledger/AnnChain/eth"
const RefEth = "github.com/ethereum/go-ethereum"

// MapPath maps an in-tree package path to its reference counterpart.
func MapPath(p string) string {
	if p == RepoEth {
		return RefEth
	}
	if strings.HasPrefix(p, RepoEth+"/") {
		return RefEth + strings.TrimPrefix(p, RepoEth)
	}
	return p
}

type Decl struct {
	Pkg  *packages.Package
	File *ast.File
	Node ast.Node // *ast.FuncDecl, *ast.ValueSpec or *ast.TypeSpec
	Key  string   // "Func", "(*T).M", "(T).M", "var:x", "const:x", "type:T"
}

type Checker struct {
	All    map[string]*packages.Package // by PkgPath
	Opaque map[string]bool              // mapped package paths treated as equal without comparison (logging, metrics)
	decls  map[string]map[string]*Decl  // pkgpath -> key -> decl
	memo   map[string]*Result
	stack  map[string]bool
	// Assume: "pkgpath::key" of in-tree declarations that are reviewed deviations; when such a
	// declaration appears as a DEPENDENCY it does not make its dependents differ (it is decided by its
	// own row in the deviation table).
	Assume map[string]bool
	// UsedAssume records which assumed deviations were relied upon.
	UsedAssume map[string]bool
}

type Result struct {
	Equal  bool
	Why    string   // first difference
	Deps   []string // object pairs this verdict depends on
	Repo   *Decl
	Ref    *Decl
	Tokens int
}

func New(all map[string]*packages.Package, opaque []string) *Checker {
	c := &Checker{All: map[string]*packages.Package{}, Opaque: map[string]bool{}, decls: map[string]map[string]*Decl{}, memo: map[string]*Result{}, stack: map[string]bool{}, Assume: map[string]bool{}, UsedAssume: map[string]bool{}}
	for _, p := range all {
		if p.Types == nil || strings.HasSuffix(p.ID, ".test") || strings.Contains(p.ID, "[") {
			continue
		}
		c.All[p.PkgPath] = p
	}
	for _, o := range opaque {
		c.Opaque[o] = true
	}
	return c
}

func recvKey(fd *ast.FuncDecl) string {
	if fd.Recv == nil || len(fd.Recv.List) == 0 {
		return fd.Name.Name
	}
	t := fd.Recv.List[0].Type
	ptr := false
	if st, ok := t.(*ast.StarExpr); ok {
		ptr = true
		t = st.X
	}
	name := "?"
	switch x := t.(type) {
	case *ast.Ident:
		name = x.Name
	case *ast.IndexExpr:
		if id, ok := x.X.(*ast.Ident); ok {
			name = id.Name
		}
	}
	if ptr {
		return "(*" + name + ")." + fd.Name.Name
	}
	return "(" + name + ")." + fd.Name.Name
}

// Decls indexes the declarations of a package.
func (c *Checker) Decls(pkgPath string) map[string]*Decl {
	if m, ok := c.decls[pkgPath]; ok {
		return m
	}
	m := map[string]*Decl{}
	c.decls[pkgPath] = m
	p := c.All[pkgPath]
	if p == nil {
		return m
	}
	for _, f := range p.Syntax {
		for _, d := range f.Decls {
			switch x := d.(type) {
			case *ast.FuncDecl:
				k := recvKey(x)
				if x.Name.Name == "init" || x.Name.Name == "_" {
					continue
				}
				m[k] = &Decl{p, f, x, k}
			case *ast.GenDecl:
				for _, sp := range x.Specs {
					switch s := sp.(type) {
					case *ast.ValueSpec:
						kind := "var:"
						if x.Tok == token.CONST {
							kind = "const:"
						}
						for _, n := range s.Names {
							if n.Name != "_" {
								m[kind+n.Name] = &Decl{p, f, s, kind + n.Name}
							}
						}
					case *ast.TypeSpec:
						m["type:"+s.Name.Name] = &Decl{p, f, s, "type:" + s.Name.Name}
					}
				}
			}
		}
	}
	return m
}

type tok struct {
	t   token.Token
	lit string
}

func (c *Checker) tokens(p *packages.Package, n ast.Node) ([]tok, error) {
	var buf bytes.Buffer
	cfg := printer.Config{Mode: printer.RawFormat}
	if err := cfg.Fprint(&buf, p.Fset, n); err != nil {
		return nil, err
	}
	seg := buf.Bytes()
	fs := token.NewFileSet()
	file := fs.AddFile("", fs.Base(), len(seg))
	var s scanner.Scanner
	s.Init(file, seg, nil, 0)
	var out []tok
	for {
		_, t, lit := s.Scan()
		if t == token.EOF {
			break
		}
		if t == token.SEMICOLON {
			// explicit and automatically inserted semicolons alike: layout, not content
			continue
		}
		out = append(out, tok{t, lit})
	}
	return out, nil
}

func idents(n ast.Node) []*ast.Ident {
	var out []*ast.Ident
	ast.Inspect(n, func(x ast.Node) bool {
		if id, ok := x.(*ast.Ident); ok {
			out = append(out, id)
		}
		return true
	})
	return out
}

// objKey describes what an identifier resolves to, in a path-mapped, comparable way. dep is non-empty
// for package-level objects of the eth tree that must themselves be compared.
func (c *Checker) objKey(p *packages.Package, id *ast.Ident, mapped bool) (key string, depPkg, depKey string) {
	var obj types.Object
	if o, ok := p.TypesInfo.Uses[id]; ok {
		obj = o
	} else if o, ok := p.TypesInfo.Defs[id]; ok {
		obj = o
	}
	if obj == nil {
		return "none:" + id.Name, "", ""
	}
	mp := func(path string) string {
		if mapped {
			return MapPath(path)
		}
		return path
	}
	switch o := obj.(type) {
	case *types.PkgName:
		return "pkg:" + mp(o.Imported().Path()), "", ""
	case *types.Builtin, *types.Nil:
		return "universe:" + o.Name(), "", ""
	case *types.Label:
		return "label", "", ""
	}
	if obj.Pkg() == nil {
		return "universe:" + obj.Name(), "", ""
	}
	pkgPath := obj.Pkg().Path()
	switch o := obj.(type) {
	case *types.Var:
		if o.IsField() {
			return "field:" + o.Name(), "", ""
		}
		if obj.Parent() == obj.Pkg().Scope() {
			return "var:" + mp(pkgPath) + "." + o.Name(), pkgPath, "var:" + o.Name()
		}
		return "local", "", ""
	case *types.Const:
		if obj.Parent() == obj.Pkg().Scope() {
			return "const:" + mp(pkgPath) + "." + o.Name() + "=" + o.Val().ExactString(), "", ""
		}
		return "localconst=" + o.Val().ExactString(), "", ""
	case *types.TypeName:
		if obj.Parent() == obj.Pkg().Scope() {
			return "type:" + mp(pkgPath) + "." + o.Name(), pkgPath, "type:" + o.Name()
		}
		return "localtype", "", ""
	case *types.Func:
		sig := o.Type().(*types.Signature)
		if recv := sig.Recv(); recv != nil {
			t := recv.Type()
			ptr := false
			if pt, ok := t.(*types.Pointer); ok {
				t, ptr = pt.Elem(), true
			}
			if nt, ok := t.(*types.Named); ok {
				if _, isIface := nt.Underlying().(*types.Interface); isIface {
					ip := ""
					if nt.Obj().Pkg() != nil {
						ip = nt.Obj().Pkg().Path()
					}
					return "imethod:" + mp(ip) + "." + nt.Obj().Name() + "." + o.Name(), ip, "type:" + nt.Obj().Name()
				}
				rp := ""
				if nt.Obj().Pkg() != nil {
					rp = nt.Obj().Pkg().Path()
				}
				k := "(" + nt.Obj().Name() + ")." + o.Name()
				if ptr {
					k = "(*" + nt.Obj().Name() + ")." + o.Name()
				}
				return "method:" + mp(rp) + "." + k, rp, k
			}
			// interface method
			return "imethod:" + o.Name(), "", ""
		}
		if obj.Parent() == obj.Pkg().Scope() {
			return "func:" + mp(pkgPath) + "." + o.Name(), pkgPath, o.Name()
		}
		return "local", "", ""
	}
	return "other:" + obj.Name(), "", ""
}

func inEthTree(path string) bool {
	return path == RepoEth || strings.HasPrefix(path, RepoEth+"/") || path == RefEth || strings.HasPrefix(path, RefEth+"/")
}

// Compare compares declaration `key` of in-tree package repoPkg with its counterpart.
func (c *Checker) Compare(repoPkg, key string) *Result {
	id := repoPkg + "::" + key
	if r, ok := c.memo[id]; ok {
		return r
	}
	if c.stack[id] {
		return &Result{Equal: true, Why: "cycle (assumed)"}
	}
	c.stack[id] = true
	defer delete(c.stack, id)
	r := c.compare(repoPkg, key)
	c.memo[id] = r
	return r
}

func (c *Checker) compare(repoPkg, key string) *Result {
	refPkg := MapPath(repoPkg)
	if c.Opaque[refPkg] {
		return &Result{Equal: true, Why: "opaque package"}
	}
	rd := c.Decls(repoPkg)[key]
	fd := c.Decls(refPkg)[key]
	res := &Result{Repo: rd, Ref: fd}
	if rd == nil {
		res.Why = "not declared in-tree"
		return res
	}
	if fd == nil {
		if c.All[refPkg] == nil {
			res.Why = "reference package " + refPkg + " not loaded"
		} else {
			res.Why = "no counterpart in the reference"
		}
		return res
	}
	rt, err1 := c.tokens(rd.Pkg, rd.Node)
	ft, err2 := c.tokens(fd.Pkg, fd.Node)
	if err1 != nil || err2 != nil {
		res.Why = fmt.Sprintf("cannot read source: %v %v", err1, err2)
		return res
	}
	res.Tokens = len(rt)
	if len(rt) != len(ft) {
		res.Why = fmt.Sprintf("token count differs (%d vs %d); first difference: %s", len(rt), len(ft), firstDiff(rt, ft))
		return res
	}
	for i := range rt {
		if rt[i] != ft[i] {
			res.Why = "tokens differ: " + firstDiff(rt, ft)
			return res
		}
	}
	ri, fi := idents(rd.Node), idents(fd.Node)
	if len(ri) != len(fi) {
		res.Why = "identifier count differs"
		return res
	}
	depSet := map[string][2]string{}
	for i := range ri {
		rk, dp, dk := c.objKey(rd.Pkg, ri[i], true)
		fk, _, _ := c.objKey(fd.Pkg, fi[i], false)
		if rk != fk {
			res.Why = fmt.Sprintf("identifier %q resolves differently: in-tree %s, reference %s", ri[i].Name, rk, fk)
			return res
		}
		if dp != "" && inEthTree(dp) && !(dp == repoPkg && dk == key) {
			depSet[dp+"::"+dk] = [2]string{dp, dk}
		}
	}
	var deps []string
	for k := range depSet {
		deps = append(deps, k)
	}
	sort.Strings(deps)
	res.Deps = deps
	for _, k := range deps {
		d := depSet[k]
		dr := c.Compare(d[0], d[1])
		if !dr.Equal && c.Assume[k] {
			c.UsedAssume[k] = true
			continue
		}
		if !dr.Equal {
			res.Why = "depends on " + strings.TrimPrefix(k, RepoEth+"/") + " which differs: " + dr.Why
			return res
		}
	}
	res.Equal = true
	return res
}

func firstDiff(a, b []tok) string {
	n := len(a)
	if len(b) < n {
		n = len(b)
	}
	i := 0
	for i < n && a[i] == b[i] {
		i++
	}
	ctx := func(t []tok) string {
		lo, hi := i-4, i+6
		if lo < 0 {
			lo = 0
		}
		if hi > len(t) {
			hi = len(t)
		}
		var bb bytes.Buffer
		for k := lo; k < hi; k++ {
			if k == i {
				bb.WriteString(" »")
			} else {
				bb.WriteString(" ")
			}
			if t[k].lit != "" {
				bb.WriteString(t[k].lit)
			} else {
				bb.WriteString(t[k].t.String())
			}
		}
		return bb.String()
	}
	return fmt.Sprintf("at token %d: in-tree [%s ] vs reference [%s ]", i, ctx(a), ctx(b))
}

// FuncKeys lists the function/method keys declared in a package (sorted).
func (c *Checker) FuncKeys(pkgPath string) []string {
	var out []string
	for k, d := range c.Decls(pkgPath) {
		if _, ok := d.Node.(*ast.FuncDecl); ok {
			out = append(out, k)
		}
	}
	sort.Strings(out)
	return out
}

// AllKeys lists all declaration keys of a package.
func (c *Checker) AllKeys(pkgPath string) []string {
	var out []string
	for k := range c.Decls(pkgPath) {
		out = append(out, k)
	}
	sort.Strings(out)
	return out
}

// TokenStrings returns the token sequences of a declaration on both sides, joined by single spaces.
func (c *Checker) TokenStrings(repoPkg, key string) (tree, ref string, err error) {
	rd := c.Decls(repoPkg)[key]
	fd := c.Decls(MapPath(repoPkg))[key]
	if rd == nil || fd == nil {
		return "", "", fmt.Errorf("declaration %s missing on one side", key)
	}
	join := func(ts []tok) string {
		var b strings.Builder
		for i, t := range ts {
			if i > 0 {
				b.WriteByte(' ')
			}
			if t.lit != "" {
				b.WriteString(t.lit)
			} else {
				b.WriteString(t.t.String())
			}
		}
		return b.String()
	}
	rt, e1 := c.tokens(rd.Pkg, rd.Node)
	ft, e2 := c.tokens(fd.Pkg, fd.Node)
	if e1 != nil || e2 != nil {
		return "", "", fmt.Errorf("%v %v", e1, e2)
	}
	return join(rt), join(ft), nil
}
