package main

import (
	"encoding/json"
	"flag"
	"fmt"
	"os"
	"path/filepath"
	"runtime/debug"
	"sort"
	"strconv"
	"strings"
	"time"

	"golang.org/x/tools/go/ssa"

	"annverif/cfgx"
	"annverif/core"
	"annverif/rules"
)

func main() {
	debug.SetGCPercent(400)
	if len(os.Args) < 2 {
		usage()
	}
	switch os.Args[1] {
	case "check":
		os.Exit(cmdCheck(os.Args[2:]))
	case "metas":
		b, _ := json.MarshalIndent(rules.Metas, "", " ")
		fmt.Println(string(b))
	case "dump":
		os.Exit(cmdDump(os.Args[2:]))
	case "explain":
		os.Exit(cmdExplain(os.Args[2:]))
	case "selftest":
		os.Exit(cmdSelftest(os.Args[2:]))
	default:
		if f, ok := extraCmds[os.Args[1]]; ok {
			os.Exit(f(os.Args[2:]))
		}
		usage()
	}
}

func usage() {
	fmt.Fprintln(os.Stderr, "usage: annverif check -property Cxx [-tier quick|thorough] [-repo /repo] | dump -func <rel name> | explain <replay.json> | selftest [-property Cxx]")
	os.Exit(2)
}

func verifDir() string {
	if d := os.Getenv("VERIF_DIR"); d != "" {
		return d
	}
	exe, err := os.Executable()
	if err == nil {
		d := filepath.Dir(filepath.Dir(exe))
		if _, err := os.Stat(filepath.Join(d, "properties.jsonl")); err == nil {
			return d
		}
	}
	return "/verif"
}

func refPkgs() []string {
	return []string{core.RefMod + "/core/vm", core.RefMod + "/trie", core.RefMod + "/rlp", core.RefMod + "/core/state", core.RefMod + "/core/vm/runtime", core.RefMod + "/params", core.RefMod + "/core"}
}

// loadFor loads the program once for a set of properties.
func loadFor(props []string, repo string, overlay map[string][]byte, goarch string) (*core.Prog, error) {
	o := core.LoadOpts{Repo: repo, Overlay: overlay}
	if strings.HasPrefix(goarch, "tags:") {
		o.Tags = strings.TrimPrefix(goarch, "tags:")
	} else {
		o.GOARCH = goarch
	}
	for _, prop := range props {
		if _, ok := rules.Registry[prop]; !ok {
			return nil, fmt.Errorf("no rule set registered for %s", prop)
		}
		meta := rules.Metas[prop]
		o.NeedCG = o.NeedCG || meta.NeedCG
		if meta.Ref && o.Ref == nil {
			o.Ref = refPkgs()
		}
	}
	p, err := core.Load(o)
	if err != nil {
		return nil, err
	}
	if len(p.Errors) > 0 {
		return p, fmt.Errorf("type errors in repository packages (no verdict): %s", strings.Join(p.Errors[:min(5, len(p.Errors))], "; "))
	}
	return p, nil
}

// runRules runs one property's rules on a loaded program. Panics in the analyser are failures (exit 2).
func runRules(p *core.Prog, prop, tier string) (rep *core.Report, err error) {
	rep = core.NewReport(prop, tier)
	defer func() {
		if e := recover(); e != nil {
			err = fmt.Errorf("analyser panic: %v", e)
			if os.Getenv("ANNVERIF_DEBUG") != "" {
				panic(e)
			}
		}
	}()
	c := rules.NewCtx(p, rep, tier)
	rules.Registry[prop](c)
	return rep, nil
}

func runProperty(prop, tier, repo string, overlay map[string][]byte, goarch string) (*core.Report, *core.Prog, error) {
	p, err := loadFor([]string{prop}, repo, overlay, goarch)
	if err != nil {
		return nil, p, err
	}
	rep, err := runRules(p, prop, tier)
	return rep, p, err
}

func cmdCheck(args []string) int {
	fs := flag.NewFlagSet("check", flag.ExitOnError)
	prop := fs.String("property", "", "property id")
	tier := fs.String("tier", "quick", "quick|thorough")
	repo := fs.String("repo", "/repo", "repository")
	fs.Parse(args)
	if t := os.Getenv("VERIF_TIER"); t == "quick" || t == "thorough" {
		*tier = t
	}
	seed := int64(0)
	if s := os.Getenv("VERIF_SEED"); s != "" {
		seed, _ = strconv.ParseInt(s, 10, 64)
	}
	vd := verifDir()
	props := strings.Split(*prop, ",")
	if *prop == "all" {
		props = nil
		for k := range rules.Registry {
			props = append(props, k)
		}
		sort.Strings(props)
	}
	tl := time.Now()
	p, err := loadFor(props, *repo, nil, "")
	if err != nil {
		fmt.Fprintf(os.Stderr, "annverif: NO VERDICT for %s: %v\n", *prop, err)
		return 2
	}
	loadS := time.Since(tl).Seconds()
	known, err := core.LoadKnown(filepath.Join(vd, "known_findings.json"))
	if err != nil {
		fmt.Fprintf(os.Stderr, "annverif: cannot read known_findings.json: %v\n", err)
		return 2
	}
	code := 0
	for _, pr := range props {
		t0 := time.Now()
		rep, err := runRules(p, pr, *tier)
		if err != nil {
			fmt.Fprintf(os.Stderr, "annverif: NO VERDICT for %s: %v\n", pr, err)
			code = 2
			continue
		}
		meta := rules.Metas[pr]
		if *tier == "thorough" {
			if c := thoroughExtras(pr, *repo, rep); c > code {
				code = c
			}
		}
		rep.Assume = append(rep.Assume, meta.Assume...)
		info := map[string]interface{}{
			"repo": *repo, "packages_loaded": len(p.AllPkgs), "functions": len(p.AllFuncs), "repo_functions": len(p.RepoFuncs()),
			"load_s": p.LoadS, "build_config": "GOOS=linux GOARCH=amd64 cgo=on, non-test files",
		}
		if p.CG != nil {
			info["callgraph"] = "VTA over CHA"
			info["callgraph_nodes"] = len(p.CG.Nodes)
		}
		c := rep.Finish(core.FinishOpts{VerifDir: vd, Seed: seed, Level: meta.Level, Explain: meta.Explain, WallS: loadS + time.Since(t0).Seconds(), ProgInfo: info, Known: known})
		if c > code {
			code = c
		}
	}
	return code
}

func cmdDump(args []string) int {
	fs := flag.NewFlagSet("dump", flag.ExitOnError)
	name := fs.String("func", "", "function (module-relative canonical name)")
	repo := fs.String("repo", "/repo", "repository")
	pat := fs.String("pkgs", "", "comma separated package patterns (default ./...)")
	grep := fs.String("grep", "", "list function names containing this")
	fs.Parse(args)
	o := core.LoadOpts{Repo: *repo}
	if *pat != "" {
		o.Patterns = strings.Split(*pat, ",")
	}
	p, err := core.Load(o)
	if err != nil {
		fmt.Fprintln(os.Stderr, err)
		return 2
	}
	if *grep != "" {
		var ns []string
		for n := range p.Funcs {
			if strings.Contains(n, *grep) {
				ns = append(ns, core.Short(n))
			}
		}
		sort.Strings(ns)
		fmt.Println(strings.Join(ns, "\n"))
		return 0
	}
	nr := cfgx.ComputeNoRet(p)
	for _, nm := range strings.Split(*name, ",") {
		fn := p.F(nm)
		if fn == nil {
			fmt.Fprintln(os.Stderr, "not found:", nm)
			continue
		}
		dumpFn(p, nr, fn)
	}
	return 0
}

func dumpFn(p *core.Prog, nr *cfgx.NoRet, fn *ssa.Function) {
	f := cfgx.New(fn, nr)
	fmt.Printf("== %s  (%s)\n", core.FuncName(fn), p.Pos(fn.Pos()))
	for _, b := range fn.Blocks {
		var gs []string
		for _, g := range f.BlockGuards(b.Index) {
			gs = append(gs, cfgx.GuardString(g))
		}
		fmt.Printf(" block %d  [%s]\n", b.Index, strings.Join(gs, " ; "))
		for _, ins := range b.Instrs {
			live := " "
			if !f.Live(ins) {
				live = "x"
			}
			switch x := ins.(type) {
			case ssa.CallInstruction:
				fmt.Printf("  %s %T %s  := %s(%s)   @%s\n", live, ins, valName(ins), cfgx.CalleeName(x), argStr(x), p.Pos(ins.Pos()))
			case *ssa.Store:
				fmt.Printf("  %s store %s = %s   @%s\n", live, cfgx.AddrExpr(x.Addr), cfgx.Expr(x.Val), p.Pos(ins.Pos()))
			case *ssa.If:
				fmt.Printf("  %s if %s -> %d else %d\n", live, cfgx.Expr(x.Cond), b.Succs[0].Index, b.Succs[1].Index)
			case *ssa.Return:
				var rs []string
				for _, r := range x.Results {
					rs = append(rs, cfgx.Expr(r))
				}
				fmt.Printf("  %s return %s\n", live, strings.Join(rs, ", "))
			case *ssa.Jump:
				fmt.Printf("  %s jump %d\n", live, b.Succs[0].Index)
			case *ssa.Panic:
				fmt.Printf("  %s panic %s\n", live, cfgx.Expr(x.X))
			case *ssa.Send:
				fmt.Printf("  %s send %s <- %s\n", live, cfgx.Expr(x.Chan), cfgx.Expr(x.X))
			case *ssa.MapUpdate:
				fmt.Printf("  %s mapupdate %s[%s] = %s\n", live, cfgx.Expr(x.Map), cfgx.Expr(x.Key), cfgx.Expr(x.Value))
			case *ssa.RunDefers:
				fmt.Printf("  %s rundefers\n", live)
			}
		}
	}
	for _, an := range fn.AnonFuncs {
		dumpFn(p, nr, an)
	}
}

func valName(ins ssa.Instruction) string {
	if v, ok := ins.(ssa.Value); ok {
		return v.Name()
	}
	return ""
}

func argStr(c ssa.CallInstruction) string {
	var out []string
	for _, a := range c.Common().Args {
		out = append(out, cfgx.Expr(a))
	}
	return strings.Join(out, ", ")
}
