package main

import (
	"fmt"

	"annverif/core"
)

func thoroughExtras(prop, repo string, rep *core.Report) int { return 0 }

func cmdExplain(args []string) int { fmt.Println("not yet"); return 2 }

func cmdSelftest(args []string) int { fmt.Println("not yet"); return 2 }
