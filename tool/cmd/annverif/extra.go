package main

import (
	"fmt"
	"strings"

	"annverif/core"
	"annverif/equiv"
	"annverif/rules"
)

var extraCmds = map[string]func([]string) int{}

func thoroughExtras(prop, repo string, rep *core.Report) int { return 0 }

func cmdExplain(args []string) int { fmt.Println("not yet"); return 2 }

func cmdSelftest(args []string) int { fmt.Println("not yet"); return 2 }

func init() {
	extraCmds["tokens"] = func(args []string) int {
		// annverif tokens <relpkg> <key>
		p, err := core.Load(core.LoadOpts{Repo: "/repo", Patterns: []string{"./eth/..."}, Ref: []string{core.RefMod + "/" + strings.TrimPrefix(args[0], "eth/")}})
		if err != nil {
			fmt.Println(err)
			return 2
		}
		eq := equiv.New(p.AllPkgs, nil)
		tree, ref, err := eq.TokenStrings(core.Mod+"/"+args[0], args[1])
		fmt.Println("TREE:", tree)
		fmt.Println("REF :", ref)
		fmt.Println(err)
		return 0
	}
}

func init() {
	extraCmds["roots"] = func(args []string) int {
		p, err := core.Load(core.LoadOpts{Repo: "/repo", NeedCG: true})
		if err != nil {
			fmt.Println(err)
			return 2
		}
		rep := core.NewReport("C08", "quick")
		c := rules.NewCtx(p, rep, "quick")
		fmt.Println(c.DebugRoots(args))
		return 0
	}
}

func init() {
	extraCmds["sections"] = func(args []string) int {
		p, err := core.Load(core.LoadOpts{Repo: "/repo", NeedCG: true})
		if err != nil {
			fmt.Println(err)
			return 2
		}
		rep := core.NewReport("C08", "quick")
		c := rules.NewCtx(p, rep, "quick")
		fmt.Println(c.DebugSections())
		return 0
	}
}
