package main

import (
	"encoding/json"
	"flag"
	"fmt"
	"os"
	"os/exec"
	"path/filepath"
	"sort"
	"strings"
	"sync"

	"annverif/core"
	"annverif/equiv"
	"annverif/rules"
)

var extraCmds = map[string]func([]string) int{}

var skipPrefix string

// ---------------------------------------------------------------------------------------------
// Mutant index: /verif/mutants/index.json lists patches (inverse-of-fix commits and the seeded
// changes kept under /verif/seeded) with the properties whose check is expected to report them.

type Mutant struct {
	ID         string   `json:"id"`
	Patch      string   `json:"patch"` // relative to the verif dir
	Properties []string `json:"properties"`
	What       string   `json:"what"`
	Expect     string   `json:"expect,omitempty"`    // "silent": a behaviour-preserving edit the checks must NOT report
	KnownGap   string   `json:"known_gap,omitempty"` // documented limit of the checker: listed, does not fail selftest
}

func loadMutants(vd string) ([]Mutant, error) {
	b, err := os.ReadFile(filepath.Join(vd, "mutants", "index.json"))
	if err != nil {
		return nil, err
	}
	var ms []Mutant
	if err := json.Unmarshal(b, &ms); err != nil {
		return nil, err
	}
	return ms, nil
}

// overlayFromPatch applies a unified diff to copies of the files it touches (never to the repository)
// and returns the go/packages overlay. ok=false when the patch no longer applies to the current tree.
func overlayFromPatch(repo, patch string) (map[string][]byte, bool, error) {
	data, err := os.ReadFile(patch)
	if err != nil {
		return nil, false, err
	}
	var files []string
	for _, l := range strings.Split(string(data), "\n") {
		if strings.HasPrefix(l, "+++ b/") {
			files = append(files, strings.TrimPrefix(l, "+++ b/"))
		}
	}
	if len(files) == 0 {
		return nil, false, fmt.Errorf("no files in patch %s", patch)
	}
	tmp, err := os.MkdirTemp("", "annverif-mutant-")
	if err != nil {
		return nil, false, err
	}
	defer os.RemoveAll(tmp)
	for _, f := range files {
		src, err := os.ReadFile(filepath.Join(repo, f))
		if err != nil {
			return nil, false, nil // file gone: patch does not apply
		}
		os.MkdirAll(filepath.Dir(filepath.Join(tmp, f)), 0o755)
		if err := os.WriteFile(filepath.Join(tmp, f), src, 0o644); err != nil {
			return nil, false, err
		}
	}
	abs, _ := filepath.Abs(patch)
	cmd := exec.Command("git", "apply", "--unsafe-paths", "--directory="+tmp, abs)
	cmd.Dir = tmp
	cmd.Env = append(os.Environ(), "GIT_CEILING_DIRECTORIES="+filepath.Dir(tmp), "GIT_DIR=/nonexistent")
	if out, err := cmd.CombinedOutput(); err != nil {
		// fall back to patch(1)
		c2 := exec.Command("patch", "-p1", "-s", "-i", abs)
		c2.Dir = tmp
		if out2, err2 := c2.CombinedOutput(); err2 != nil {
			_ = out
			_ = out2
			return nil, false, nil
		}
	}
	ov := map[string][]byte{}
	for _, f := range files {
		b, err := os.ReadFile(filepath.Join(tmp, f))
		if err != nil {
			return nil, false, err
		}
		ov[filepath.Join(repo, f)] = b
	}
	return ov, true, nil
}

type mutantResult struct {
	ID       string   `json:"id"`
	Property string   `json:"property"`
	Applies  bool     `json:"applies"`
	Detected bool     `json:"detected"`
	Keys     []string `json:"reported_keys,omitempty"`
	Err      string   `json:"error,omitempty"`
	What     string   `json:"what,omitempty"`
	Expect   string   `json:"expect,omitempty"`
	KnownGap string   `json:"known_gap,omitempty"`
}

// cmdMutant: annverif mutant -property Cxx -patch <file> [-repo /repo]; prints one JSON line.
// The patched files exist only in the loader's overlay; /repo is not modified.
func cmdMutant(args []string) int {
	fs := flag.NewFlagSet("mutant", flag.ExitOnError)
	prop := fs.String("property", "", "property")
	patch := fs.String("patch", "", "patch file")
	repo := fs.String("repo", "/repo", "repository")
	id := fs.String("id", "", "mutant id")
	fs.Parse(args)
	res := mutantResult{ID: *id, Property: *prop}
	emit := func() int {
		b, _ := json.Marshal(res)
		fmt.Println(string(b))
		return 0
	}
	ov, ok, err := overlayFromPatch(*repo, *patch)
	if err != nil {
		res.Err = err.Error()
		return emit()
	}
	res.Applies = ok
	if !ok {
		return emit()
	}
	props := []string{*prop}
	if *prop == "all" {
		props = nil
		for k := range rules.Registry {
			props = append(props, k)
		}
		sort.Strings(props)
	}
	prog, err := loadFor(props, *repo, ov, "")
	if err != nil {
		// a mutant that no longer type-checks makes every check fail (exit 2: no verdict)
		res.Err = err.Error()
		res.Detected = true
		return emit()
	}
	known, _ := core.LoadKnown(filepath.Join(verifDir(), "known_findings.json"))
	kn := map[string]bool{}
	if known != nil {
		for _, k := range known.Findings {
			if k.Status == "known" {
				kn[k.Key] = true
			}
		}
	}
	for _, pr := range props {
		rep, err := runRules(prog, pr, "quick")
		if err != nil {
			res.Err = err.Error()
			res.Detected = true
			continue
		}
		rep.Finish(core.FinishOpts{VerifDir: verifDir(), Quiet: true, NoWrite: true, Known: known})
		per := 0
		for _, k := range rep.ViolatedKeys() {
			if !kn[k] {
				per++
				if per <= 3 {
					res.Keys = append(res.Keys, k)
				} else if per == 4 {
					res.Keys = append(res.Keys, pr+"/... more")
				}
			}
		}
	}
	res.Detected = res.Detected || len(res.Keys) > 0
	return emit()
}

// runMutants runs the mutants registered for prop ("" = all), each in its own process, at most par at once.
func runMutants(vd, repo, prop string, par int) ([]mutantResult, error) {
	ms, err := loadMutants(vd)
	if err != nil {
		return nil, err
	}
	type job struct {
		m Mutant
		p string
	}
	var jobs []job
	for _, m := range ms {
		if skipPrefix != "" && strings.HasPrefix(m.ID, skipPrefix) {
			continue
		}
		for _, p := range m.Properties {
			if prop == "" || p == prop {
				jobs = append(jobs, job{m, p})
			}
		}
	}
	exe, _ := os.Executable()
	out := make([]mutantResult, len(jobs))
	sem := make(chan bool, par)
	var wg sync.WaitGroup
	for i, j := range jobs {
		wg.Add(1)
		sem <- true
		go func(i int, j job) {
			defer wg.Done()
			defer func() { <-sem }()
			cmd := exec.Command(exe, "mutant", "-property", j.p, "-patch", filepath.Join(vd, j.m.Patch), "-repo", repo, "-id", j.m.ID)
			cmd.Env = append(os.Environ(), "VERIF_DIR="+vd)
			b, err := cmd.Output()
			r := mutantResult{ID: j.m.ID, Property: j.p}
			if err != nil {
				r.Err = err.Error()
			} else if e := json.Unmarshal(lastLine(b), &r); e != nil {
				r.Err = "bad output: " + e.Error()
			}
			r.What = j.m.What
			r.Expect = j.m.Expect
			r.KnownGap = j.m.KnownGap
			out[i] = r
			if os.Getenv("ANNVERIF_PROGRESS") != "" {
				fmt.Fprintf(os.Stderr, "[%d/%d] %s %s %s\n", i+1, len(jobs), r.ID, r.Property, r.verdict())
			}
		}(i, j)
	}
	wg.Wait()
	sort.Slice(out, func(a, b int) bool { return out[a].ID+out[a].Property < out[b].ID+out[b].Property })
	return out, nil
}

func lastLine(b []byte) []byte {
	s := strings.TrimSpace(string(b))
	if i := strings.LastIndexByte(s, '\n'); i >= 0 {
		s = s[i+1:]
	}
	return []byte(s)
}

// verdict classifies one mutant run: "reported", "silent-ok", "skipped", "known-gap", "GAP" (missed), "FALSE-ALARM".
func (r mutantResult) verdict() string {
	switch {
	case !r.Applies && r.Err == "":
		return "skipped"
	case r.Expect == "silent":
		if r.Detected && r.KnownGap != "" {
			return "known-gap" // documented false alarm (DESIGN.md section 15)
		}
		if r.Detected {
			return "FALSE-ALARM"
		}
		return "silent-ok"
	case r.Detected:
		return "reported"
	case r.KnownGap != "":
		return "known-gap"
	}
	return "GAP"
}

// secondConfigTags: the build tags of the second configuration. They select the files the default build
// leaves out and that still load in this sandbox: eth/core/vm/int_pool_verifier.go (VERIFY_EVM_INTEGER_POOL)
// and the generic (non-assembly) bn256 field arithmetic. GOARCH=386 / nocgo / gcc variants cannot be
// type-checked here (cgo-only secp256k1, no btcec, no levigo) and are stated as not analysed.
const secondConfigTags = "VERIFY_EVM_INTEGER_POOL,generic"

// thoroughExtras: (a) the same rules under a second build configuration (extra build tags);
// a violation there is a violation. (b) checker QA: the
// mutant campaign of the property — a missed mutant is recorded as a checker gap in the evidence, it is
// not a violation of the property.
func thoroughExtras(prop, repo string, rep *core.Report) int {
	code := 0
	rep2, p2, err := runProperty(prop, "thorough", repo, nil, "tags:"+secondConfigTags)
	if err != nil {
		rep.Extra["second_configuration"] = map[string]interface{}{"config": "-tags " + secondConfigTags, "error": err.Error()}
		fmt.Fprintf(os.Stderr, "annverif: NO VERDICT for %s under -tags "+secondConfigTags+": %v\n", prop, err)
		code = 2
	} else {
		known, _ := core.LoadKnown(filepath.Join(verifDir(), "known_findings.json"))
		kn := map[string]bool{}
		if known != nil {
			for _, k := range known.Findings {
				if k.Status == "known" {
					kn[k.Key] = true
				}
			}
		}
		rep2.Finish(core.FinishOpts{VerifDir: verifDir(), Quiet: true, NoWrite: true, Known: known})
		mine := map[string]bool{}
		for _, k := range rep.ViolatedKeys() {
			mine[k] = true
		}
		var only []string
		for _, k := range rep2.ViolatedKeys() {
			if !mine[k] && !kn[k] {
				only = append(only, k)
			}
		}
		rep.Extra["second_configuration"] = map[string]interface{}{
			"config": "-tags " + secondConfigTags, "packages_loaded": len(p2.AllPkgs), "obligations": len(rep2.Obs),
			"not_discharged_only_there": only,
		}
		// obligations violated only under the second configuration are added to the report
		for _, ob := range rep2.Obs {
			for _, k := range only {
				if ob.Key == k {
					rule := rep.Rule(strings.TrimPrefix(ob.Rule, prop+"/"), "", 0)
					rep.Undecided(rule, "[tags "+secondConfigTags+"]"+strings.TrimPrefix(ob.Key, ob.Rule+"/"), ob.Pos, ob.Func, ob.Detail)
				}
			}
		}
	}
	if os.Getenv("ANNVERIF_SKIP_SELFTEST") != "" {
		return code
	}
	res, err := runMutants(verifDir(), repo, prop, 4)
	if err != nil {
		rep.Extra["checker_selftest"] = map[string]interface{}{"error": err.Error()}
		return code
	}
	var gaps, fa, kg []string
	det, skipped := 0, 0
	for _, r := range res {
		switch r.verdict() {
		case "skipped":
			skipped++
		case "reported", "silent-ok":
			det++
		case "known-gap":
			kg = append(kg, r.ID)
		case "FALSE-ALARM":
			fa = append(fa, r.ID)
		default:
			gaps = append(gaps, r.ID)
		}
	}
	rep.Extra["checker_selftest"] = map[string]interface{}{
		"what":    "every registered change that breaks this property (inverse of each fix commit; seeded changes under /verif/seeded) is applied through the loader's overlay — /repo is not modified — and the property's rules must report it",
		"mutants": len(res), "as_expected": det, "skipped_patch_no_longer_applies": skipped, "checker_gaps": gaps, "documented_gaps": kg, "false_alarms_on_benign_edits": fa, "results": res,
	}
	fmt.Printf("annverif: %s thorough: second configuration done; %d registered changes replayed through the overlay, %d as expected, %d skipped, gaps=%v documented-gaps=%v false-alarms=%v\n", prop, len(res), det, skipped, gaps, kg, fa)
	return code
}

// cmdExplain re-decides the obligation recorded in a replay file on the current tree.
func cmdExplain(args []string) int {
	if len(args) < 1 {
		fmt.Fprintln(os.Stderr, "usage: annverif explain <replay.json> [-repo /repo]")
		return 2
	}
	repo := "/repo"
	if len(args) >= 3 && args[1] == "-repo" {
		repo = args[2]
	}
	b, err := os.ReadFile(args[0])
	if err != nil {
		fmt.Fprintln(os.Stderr, err)
		return 2
	}
	var rp struct {
		Property   string          `json:"property"`
		Obligation core.Obligation `json:"obligation"`
		RuleText   string          `json:"rule_text"`
	}
	if err := json.Unmarshal(b, &rp); err != nil || rp.Property == "" {
		fmt.Fprintln(os.Stderr, "not a replay file:", err)
		return 2
	}
	rep, _, err := runProperty(rp.Property, "quick", repo, nil, "")
	if err != nil {
		fmt.Fprintf(os.Stderr, "annverif: NO VERDICT: %v\n", err)
		return 2
	}
	fmt.Printf("property   : %s\nrule       : %s\n             %s\nobligation : %s\nrecorded   : [%s] %s %s\n             %s\n", rp.Property, rp.Obligation.Rule, rp.RuleText, rp.Obligation.Key, rp.Obligation.Status, rp.Obligation.Pos, core.Short(rp.Obligation.Func), rp.Obligation.Detail)
	for _, ob := range rep.Obs {
		if ob.Key == rp.Obligation.Key {
			fmt.Printf("now        : [%s] %s %s\n             %s\n", ob.Status, ob.Pos, core.Short(ob.Func), ob.Detail)
			if ob.Status != "discharged" {
				fmt.Printf("VIOLATION property=%s replay=%s\n", rp.Property, args[0])
				return 1
			}
			return 0
		}
	}
	fmt.Println("now        : the rule no longer produces this obligation on the current tree (construct gone or renamed); run the full check")
	return 0
}

// cmdSelftest: checker QA — replays every registered breaking change; exit 1 if one is not reported.
func cmdSelftest(args []string) int {
	fs := flag.NewFlagSet("selftest", flag.ExitOnError)
	prop := fs.String("property", "", "property (default all)")
	repo := fs.String("repo", "/repo", "repository")
	par := fs.Int("j", 4, "parallel processes")
	skip := fs.String("skip", "", "skip mutants whose id starts with this prefix (e.g. seeded-)")
	fs.Parse(args)
	skipPrefix = *skip
	res, err := runMutants(verifDir(), *repo, *prop, *par)
	if err != nil {
		fmt.Fprintln(os.Stderr, err)
		return 2
	}
	bad := 0
	for _, r := range res {
		st := r.verdict()
		if st == "GAP" || st == "FALSE-ALARM" {
			bad++
		}
		k := ""
		if len(r.Keys) > 0 {
			k = r.Keys[0]
		}
		fmt.Printf("%-34s %-4s %-11s %s %s\n", r.ID, r.Property, st, k, r.Err)
	}
	fmt.Printf("selftest: %d mutant runs, %d not as expected\n", len(res), bad)
	if bad > 0 {
		return 1
	}
	return 0
}

func init() {
	extraCmds["mutant"] = cmdMutant
	extraCmds["tokens"] = func(args []string) int {
		// annverif tokens <relpkg> <key>
		p, err := core.Load(core.LoadOpts{Repo: "/repo", Patterns: []string{"./eth/..."}, Ref: []string{core.RefMod + "/" + strings.TrimPrefix(args[0], "eth/")}})
		if err != nil {
			fmt.Println(err)
			return 2
		}
		eq := equiv.New(p.AllPkgs, nil)
		tree, ref, err := eq.TokenStrings(core.Mod+"/"+args[0], args[1])
		fmt.Println("TREE:", tree)
		fmt.Println("REF :", ref)
		fmt.Println(err)
		return 0
	}
	extraCmds["roots"] = func(args []string) int {
		p, err := core.Load(core.LoadOpts{Repo: "/repo", NeedCG: true})
		if err != nil {
			fmt.Println(err)
			return 2
		}
		rep := core.NewReport("C08", "quick")
		c := rules.NewCtx(p, rep, "quick")
		fmt.Println(c.DebugRoots(args))
		return 0
	}
	extraCmds["sections"] = func(args []string) int {
		p, err := core.Load(core.LoadOpts{Repo: "/repo", NeedCG: true})
		if err != nil {
			fmt.Println(err)
			return 2
		}
		rep := core.NewReport("C08", "quick")
		c := rules.NewCtx(p, rep, "quick")
		fmt.Println(c.DebugSections())
		return 0
	}
}
