package core

import (
	"crypto/sha1"
	"encoding/json"
	"fmt"
	"os"
	"path/filepath"
	"sort"
	"strings"
)

type Status int

const (
	Discharged Status = iota
	Violated
	Undecided
)

func (s Status) String() string { return [...]string{"discharged", "violated", "undecided"}[s] }

// Obligation is one decided instance of a rule. Key is rule+construct (symbol path), never a line.
type Obligation struct {
	Key    string `json:"key"`    // Cxx/Rn/<construct>
	Rule   string `json:"rule"`   // Cxx/Rn
	Status string `json:"status"` // discharged | violated | undecided
	Pos    string `json:"pos"`    // file:line of the construct on this run (informational)
	Func   string `json:"func,omitempty"`
	Detail string `json:"detail,omitempty"`
	status Status
}

// RuleInfo: text of the rule plus instance floor.
type RuleInfo struct {
	ID        string `json:"id"`
	Text      string `json:"text"`
	Floor     int    `json:"instance_floor"`
	Instances int    `json:"instances"`
	Violated  int    `json:"violated"`
	NotCover  string `json:"not_covered,omitempty"`
}

type Report struct {
	Property string
	Tier     string
	Rules    map[string]*RuleInfo
	order    []string
	Obs      []*Obligation
	Notes    []string // observations reported in evidence, not obligations
	Assume   []string
	Extra    map[string]interface{}
	keys     map[string]bool
	// IDPrefix is prepended to rule ids while another property's rule functions run inside this report
	// (shared rules keep their own numbering: "C01/C04.R5").
	IDPrefix string
}

func NewReport(prop, tier string) *Report {
	return &Report{Property: prop, Tier: tier, Rules: map[string]*RuleInfo{}, Extra: map[string]interface{}{}, keys: map[string]bool{}}
}

// Rule declares a rule with its text and the number of instances confirmed by hand on the pinned tree.
func (r *Report) Rule(id, text string, floor int) string {
	full := r.Property + "/" + r.IDPrefix + id
	if _, ok := r.Rules[full]; !ok {
		r.Rules[full] = &RuleInfo{ID: full, Text: text, Floor: floor}
		r.order = append(r.order, full)
	}
	return full
}

func (r *Report) add(rule, construct string, st Status, pos, fn, detail string) *Obligation {
	key := rule + "/" + construct
	// keys must be unique; if a rule yields the same construct twice, number them
	if r.keys[key] {
		for i := 2; ; i++ {
			k := fmt.Sprintf("%s#%d", key, i)
			if !r.keys[k] {
				key = k
				break
			}
		}
	}
	r.keys[key] = true
	o := &Obligation{Key: key, Rule: rule, Status: st.String(), Pos: pos, Func: fn, Detail: detail, status: st}
	r.Obs = append(r.Obs, o)
	if ri := r.Rules[rule]; ri != nil {
		ri.Instances++
		if st != Discharged {
			ri.Violated++
		}
	} else {
		panic("obligation for undeclared rule " + rule)
	}
	return o
}

// Ob records an obligation: ok → discharged, else violated.
func (r *Report) Ob(rule, construct string, ok bool, pos, fn, detail string) {
	st := Discharged
	if !ok {
		st = Violated
	}
	r.add(rule, construct, st, pos, fn, detail)
}

// Undecided records an obligation that could not be decided (counts as violated).
func (r *Report) Undecided(rule, construct, pos, fn, detail string) {
	r.add(rule, construct, Undecided, pos, fn, detail)
}

// Missing records an unresolved anchor: a failure, never a vacuous pass.
func (r *Report) Missing(rule, what string) {
	r.add(rule, "anchor:"+what, Undecided, "-", "", "anchor could not be resolved in the current tree: "+what)
}

func (r *Report) Note(format string, a ...interface{}) {
	r.Notes = append(r.Notes, fmt.Sprintf(format, a...))
}

// ---------------------------------------------------------------------------------------------
// Known findings

type KnownFinding struct {
	Property string `json:"property"`
	Key      string `json:"key"`    // obligation key (exact) this finding covers
	What     string `json:"what"`   // what fails (input / call site / history)
	Status   string `json:"status"` // "known" | "fixed"
	Commit   string `json:"commit,omitempty"`
}

type KnownFile struct {
	Doc      string         `json:"_doc"`
	Findings []KnownFinding `json:"findings"`
}

func LoadKnown(path string) (*KnownFile, error) {
	b, err := os.ReadFile(path)
	if err != nil {
		if os.IsNotExist(err) {
			return &KnownFile{}, nil
		}
		return nil, err
	}
	var k KnownFile
	if err := json.Unmarshal(b, &k); err != nil {
		return nil, err
	}
	return &k, nil
}

// ---------------------------------------------------------------------------------------------
// Finish: evidence + stdout protocol. Returns the exit code.

type FinishOpts struct {
	VerifDir string
	Seed     int64
	Level    string // "other" | "translation_validation"
	Explain  string // decided clause, in words
	WallS    float64
	ProgInfo map[string]interface{}
	Known    *KnownFile
	Quiet    bool
	NoWrite  bool // selftest: do not write evidence
}

func (r *Report) Finish(o FinishOpts) int {
	// floors
	for _, id := range r.order {
		ri := r.Rules[id]
		if ri.Instances < ri.Floor {
			r.add(id, "floor", Undecided, "-", "", fmt.Sprintf("rule matched %d instances, fewer than the %d confirmed by hand on the pinned tree (a rule that matches nothing cannot pass)", ri.Instances, ri.Floor))
		}
	}
	sort.SliceStable(r.Obs, func(i, j int) bool { return r.Obs[i].Key < r.Obs[j].Key })
	known := map[string]KnownFinding{}
	if o.Known != nil {
		for _, k := range o.Known.Findings {
			if k.Property == r.Property && k.Status == "known" {
				known[k.Key] = k
			}
		}
	}
	nViol, nKnown, nDis := 0, 0, 0
	var lines []string
	replayDir := filepath.Join(o.VerifDir, "evidence", "replay")
	var violSamples []interface{}
	for _, ob := range r.Obs {
		if ob.status == Discharged {
			nDis++
			continue
		}
		if k, ok := known[ob.Key]; ok {
			nKnown++
			lines = append(lines, fmt.Sprintf("KNOWN-FINDING: property=%s %s %s", r.Property, ob.Key, k.What))
			continue
		}
		nViol++
		h := sha1.Sum([]byte(ob.Key))
		rp := filepath.Join(replayDir, fmt.Sprintf("%s-%x.json", r.Property, h[:6]))
		if !o.NoWrite {
			os.MkdirAll(replayDir, 0o755)
			b, _ := json.MarshalIndent(map[string]interface{}{
				"property": r.Property, "obligation": ob, "rule_text": r.Rules[ob.Rule].Text,
				"how_to_replay": "bin/annverif explain " + rp,
			}, "", " ")
			os.WriteFile(rp, append(b, '\n'), 0o644)
		}
		lines = append(lines, fmt.Sprintf("VIOLATION property=%s replay=%s", r.Property, rp))
		lines = append(lines, fmt.Sprintf("  %s [%s] %s %s: %s", ob.Key, ob.Status, ob.Pos, Short(ob.Func), ob.Detail))
		if len(violSamples) < 10 {
			violSamples = append(violSamples, ob)
		}
	}
	// evidence
	var rules []*RuleInfo
	for _, id := range r.order {
		rules = append(rules, r.Rules[id])
	}
	// samples: up to 3 obligations per rule
	var samples []interface{}
	per := map[string]int{}
	for _, ob := range r.Obs {
		if per[ob.Rule] < 3 {
			per[ob.Rule]++
			samples = append(samples, ob)
		}
	}
	cov := map[string]interface{}{
		"explanation":      o.Explain,
		"obligations":      len(r.Obs),
		"discharged":       nDis,
		"known_findings":   nKnown,
		"rules":            rules,
		"samples":          samples,
		"observations":     r.Notes,
		"analysed":         o.ProgInfo,
		"checker_cmd":      "bin/annverif check -property " + r.Property + " -tier " + r.Tier,
		"trusted_base":     []string{"go/types", "golang.org/x/tools/go/ssa v0.29.0", "x/tools callgraph vta", "annverif engines and the slot tables in tool/rules"},
		"violating_sample": violSamples,
	}
	for k, v := range r.Extra {
		cov[k] = v
	}
	if r.Assume == nil {
		r.Assume = []string{}
	}
	ev := map[string]interface{}{
		"property_id": r.Property,
		"tier":        r.Tier,
		"seed":        o.Seed,
		"level":       o.Level,
		"coverage":    cov,
		"assumptions": r.Assume,
		"wall_s":      o.WallS,
		"violations":  nViol,
	}
	if !o.NoWrite {
		os.MkdirAll(filepath.Join(o.VerifDir, "evidence"), 0o755)
		b, _ := json.MarshalIndent(ev, "", " ")
		os.WriteFile(filepath.Join(o.VerifDir, "evidence", r.Property+".json"), append(b, '\n'), 0o644)
	}
	if !o.Quiet {
		fmt.Printf("annverif: property=%s tier=%s rules=%d obligations=%d discharged=%d known=%d violations=%d\n",
			r.Property, r.Tier, len(r.order), len(r.Obs), nDis, nKnown, nViol)
		for _, id := range r.order {
			ri := r.Rules[id]
			fmt.Printf("  %-10s instances=%-4d floor=%-3d not-discharged=%d  %s\n", strings.TrimPrefix(ri.ID, r.Property+"/"), ri.Instances, ri.Floor, ri.Violated, firstLine(ri.Text))
		}
		for _, l := range lines {
			fmt.Println(l)
		}
	}
	if nViol > 0 {
		return 1
	}
	return 0
}

// ViolatedKeys lists keys of non-discharged obligations (self-test use).
func (r *Report) ViolatedKeys() []string {
	var out []string
	for _, ob := range r.Obs {
		if ob.status != Discharged {
			out = append(out, ob.Key)
		}
	}
	sort.Strings(out)
	return out
}

func firstLine(s string) string {
	if i := strings.IndexByte(s, '\n'); i >= 0 {
		s = s[:i]
	}
	if len(s) > 110 {
		s = s[:107] + "..."
	}
	return s
}
