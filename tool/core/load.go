// Package core: loader (E1), symbol resolution, obligations and evidence plumbing.
package core

import (
	"fmt"
	"go/token"
	"go/types"
	"os"
	"sort"
	"strings"
	"time"

	"golang.org/x/tools/go/callgraph"
	"golang.org/x/tools/go/callgraph/cha"
	"golang.org/x/tools/go/callgraph/vta"
	"golang.org/x/tools/go/packages"
	"golang.org/x/tools/go/ssa"
	"golang.org/x/tools/go/ssa/ssautil"
)

const Mod = "github.com/dappledger/AnnChain"
const RefMod = "github.com/ethereum/go-ethereum"

// Options for loading the program under analysis.
type LoadOpts struct {
	Repo     string            // directory of the repository (default /repo)
	Patterns []string          // package patterns (default ./...)
	Overlay  map[string][]byte // file overlay (checker self-test mutants)
	GOARCH   string            // optional second configuration
	Tags     string            // optional build tags (second configuration)
	Tests    bool              // include test files
	NeedCG   bool              // build the VTA call graph
	NeedCHA  bool              // keep the CHA graph too
	Ref      []string          // reference packages (go-ethereum) to load alongside
}

// Prog is the loaded, type-checked, SSA-built program.
type Prog struct {
	Opts     LoadOpts
	Fset     *token.FileSet
	Pkgs     []*packages.Package // roots
	AllPkgs  map[string]*packages.Package
	SSA      *ssa.Program
	SSAPkgs  []*ssa.Package
	Funcs    map[string]*ssa.Function // canonical name -> function (repo and reference packages)
	AllFuncs map[*ssa.Function]bool
	CG       *callgraph.Graph // VTA
	CHA      *callgraph.Graph
	LoadS    float64
	Errors   []string // type errors in repo packages
}

// Load loads the repository. Any failure to load is returned as an error (the caller
// turns it into exit status 2: no verdict).
func Load(o LoadOpts) (*Prog, error) {
	t0 := time.Now()
	if o.Repo == "" {
		o.Repo = "/repo"
	}
	if len(o.Patterns) == 0 {
		o.Patterns = []string{"./..."}
	}
	env := append(os.Environ(), "GOFLAGS=-mod=mod", "GOPROXY=off", "GOSUMDB=off", "GOWORK=off", "GOTOOLCHAIN=local", "CGO_ENABLED=1")
	if o.GOARCH != "" {
		env = append(env, "GOARCH="+o.GOARCH, "CGO_ENABLED=0")
	}
	var bflags []string
	if o.Tags != "" {
		bflags = []string{"-tags=" + o.Tags}
	}
	cfg := &packages.Config{
		BuildFlags: bflags,
		Mode:       packages.LoadAllSyntax,
		Dir:        o.Repo,
		Env:        env,
		Tests:      o.Tests,
		Overlay:    o.Overlay,
	}
	pats := append([]string{}, o.Patterns...)
	pats = append(pats, o.Ref...)
	pkgs, err := packages.Load(cfg, pats...)
	if err != nil {
		return nil, fmt.Errorf("packages.Load: %v", err)
	}
	if len(pkgs) == 0 {
		return nil, fmt.Errorf("no packages loaded from %s", o.Repo)
	}
	p := &Prog{Opts: o, Pkgs: pkgs, AllPkgs: map[string]*packages.Package{}, Funcs: map[string]*ssa.Function{}}
	nrepo := 0
	packages.Visit(pkgs, nil, func(pk *packages.Package) {
		p.AllPkgs[pk.ID] = pk
		if strings.HasPrefix(pk.PkgPath, Mod) {
			nrepo++
			for _, e := range pk.Errors {
				p.Errors = append(p.Errors, pk.PkgPath+": "+e.Error())
			}
		}
	})
	if nrepo == 0 {
		return nil, fmt.Errorf("no package of %s loaded", Mod)
	}
	if len(pkgs) > 0 {
		p.Fset = pkgs[0].Fset
	}
	prog, spkgs := ssautil.AllPackages(pkgs, ssa.InstantiateGenerics)
	prog.Build()
	p.SSA = prog
	p.SSAPkgs = spkgs
	p.AllFuncs = ssautil.AllFunctions(prog)
	for fn := range p.AllFuncs {
		n := FuncName(fn)
		if n == "" {
			continue
		}
		if strings.HasPrefix(n, Mod) || strings.HasPrefix(n, RefMod) {
			if old, ok := p.Funcs[n]; ok && old != fn {
				// keep the one with a body / deterministic choice
				if old.Blocks != nil {
					continue
				}
			}
			p.Funcs[n] = fn
		}
	}
	if o.NeedCG {
		chag := cha.CallGraph(prog)
		p.CG = vta.CallGraph(p.AllFuncs, chag)
		if o.NeedCHA {
			p.CHA = chag
		}
	}
	p.LoadS = time.Since(t0).Seconds()
	return p, nil
}

// FuncName gives the canonical, position-free name of a function:
//
//	pkgpath.Func, pkgpath.(*T).Method, pkgpath.(T).Method, parent$1 for closures.
func FuncName(fn *ssa.Function) string {
	if fn == nil {
		return ""
	}
	if fn.Parent() != nil {
		return FuncName(fn.Parent()) + "$" + strings.TrimPrefix(fn.Name()[strings.LastIndex(fn.Name(), "$"):], "$")
	}
	if fn.Synthetic != "" && fn.Pkg == nil && fn.Object() == nil {
		return ""
	}
	if recv := fn.Signature.Recv(); recv != nil {
		t := recv.Type()
		ptr := false
		if pt, ok := t.(*types.Pointer); ok {
			t = pt.Elem()
			ptr = true
		}
		if nt, ok := t.(*types.Named); ok {
			pp := ""
			if nt.Obj().Pkg() != nil {
				pp = nt.Obj().Pkg().Path()
			}
			if ptr {
				return pp + ".(*" + nt.Obj().Name() + ")." + fn.Name()
			}
			return pp + ".(" + nt.Obj().Name() + ")." + fn.Name()
		}
		return ""
	}
	if fn.Pkg != nil {
		return fn.Pkg.Pkg.Path() + "." + fn.Name()
	}
	if fn.Object() != nil && fn.Object().Pkg() != nil {
		return fn.Object().Pkg().Path() + "." + fn.Name()
	}
	return ""
}

// Short strips the module prefix for display.
func Short(name string) string {
	return strings.TrimPrefix(strings.TrimPrefix(name, Mod+"/"), RefMod+"/")
}

// Pos renders a position relative to the repo root.
func (p *Prog) Pos(pos token.Pos) string {
	if !pos.IsValid() {
		return "-"
	}
	ps := p.Fset.Position(pos)
	f := ps.Filename
	f = strings.TrimPrefix(f, p.Opts.Repo+"/")
	return fmt.Sprintf("%s:%d", f, ps.Line)
}

// F resolves a function by name relative to the module ("gemmill/types.(*VoteSet).addVote").
func (p *Prog) F(rel string) *ssa.Function {
	if fn, ok := p.Funcs[Mod+"/"+rel]; ok {
		return fn
	}
	if fn, ok := p.Funcs[rel]; ok {
		return fn
	}
	return nil
}

// Pkg returns the type-checked package by path relative to the module.
func (p *Prog) Pkg(rel string) *packages.Package {
	for _, cand := range []string{Mod + "/" + rel, rel} {
		if pk, ok := p.AllPkgs[cand]; ok {
			return pk
		}
	}
	// Tests==true gives IDs with suffixes
	for id, pk := range p.AllPkgs {
		if (pk.PkgPath == Mod+"/"+rel || pk.PkgPath == rel) && !strings.Contains(id, "[") && !strings.HasSuffix(id, ".test") {
			return pk
		}
	}
	return nil
}

// SSAPkg returns the ssa package by relative path.
func (p *Prog) SSAPkg(rel string) *ssa.Package {
	pk := p.Pkg(rel)
	if pk == nil || pk.Types == nil {
		return nil
	}
	return p.SSA.Package(pk.Types)
}

// FuncsOfPkg lists all functions (incl. methods and closures) whose canonical name is in package rel.
func (p *Prog) FuncsOfPkg(rel string) []*ssa.Function {
	var out []*ssa.Function
	pre1 := Mod + "/" + rel + "."
	pre2 := rel + "."
	for n, fn := range p.Funcs {
		if strings.HasPrefix(n, pre1) || strings.HasPrefix(n, pre2) {
			rest := strings.TrimPrefix(strings.TrimPrefix(n, pre1), pre2)
			if strings.Contains(rest, "/") {
				continue
			}
			out = append(out, fn)
		}
	}
	sort.Slice(out, func(i, j int) bool { return FuncName(out[i]) < FuncName(out[j]) })
	return out
}

// RepoFuncs lists every function of the module with a body, sorted by name.
func (p *Prog) RepoFuncs() []*ssa.Function {
	var out []*ssa.Function
	for n, fn := range p.Funcs {
		if strings.HasPrefix(n, Mod+"/") && fn.Blocks != nil {
			out = append(out, fn)
		}
	}
	sort.Slice(out, func(i, j int) bool { return FuncName(out[i]) < FuncName(out[j]) })
	return out
}

// Callers returns the (sorted, deduplicated) canonical names of callers of fn in the VTA graph,
// together with the call sites.
func (p *Prog) Callers(fn *ssa.Function) []*callgraph.Edge {
	if p.CG == nil || fn == nil {
		return nil
	}
	n := p.CG.Nodes[fn]
	if n == nil {
		return nil
	}
	out := append([]*callgraph.Edge{}, n.In...)
	sort.Slice(out, func(i, j int) bool {
		a, b := FuncName(out[i].Caller.Func), FuncName(out[j].Caller.Func)
		if a != b {
			return a < b
		}
		return out[i].Pos() < out[j].Pos()
	})
	return out
}

// Callees of a call instruction according to VTA (static callee first).
func (p *Prog) Callees(site ssa.CallInstruction) []*ssa.Function {
	if c := site.Common().StaticCallee(); c != nil {
		return []*ssa.Function{c}
	}
	if p.CG == nil {
		return nil
	}
	n := p.CG.Nodes[site.Parent()]
	if n == nil {
		return nil
	}
	var out []*ssa.Function
	seen := map[*ssa.Function]bool{}
	for _, e := range n.Out {
		if e.Site == site && !seen[e.Callee.Func] {
			seen[e.Callee.Func] = true
			out = append(out, e.Callee.Func)
		}
	}
	sort.Slice(out, func(i, j int) bool { return FuncName(out[i]) < FuncName(out[j]) })
	return out
}

// Reachable returns the set of functions reachable from roots through call edges (not through `go`
// statements when skipGo is set).
func (p *Prog) Reachable(roots []*ssa.Function, skipGo bool, stop func(*ssa.Function) bool) map[*ssa.Function]bool {
	seen := map[*ssa.Function]bool{}
	var work []*ssa.Function
	for _, r := range roots {
		if r != nil && !seen[r] {
			seen[r] = true
			work = append(work, r)
		}
	}
	for len(work) > 0 {
		f := work[len(work)-1]
		work = work[:len(work)-1]
		n := p.CG.Nodes[f]
		if n == nil {
			continue
		}
		for _, e := range n.Out {
			if skipGo {
				if _, isGo := e.Site.(*ssa.Go); isGo {
					continue
				}
			}
			c := e.Callee.Func
			if seen[c] {
				continue
			}
			if stop != nil && stop(c) {
				continue
			}
			seen[c] = true
			work = append(work, c)
		}
		_ = f
	}
	return seen
}

func closureOnlyUsedByGo(parent, an *ssa.Function) bool {
	used, onlyGo := false, true
	for _, b := range parent.Blocks {
		for _, ins := range b.Instrs {
			var v ssa.Value
			switch x := ins.(type) {
			case *ssa.MakeClosure:
				if x.Fn == an {
					for _, r := range *x.Referrers() {
						used = true
						if _, ok := r.(*ssa.Go); !ok {
							onlyGo = false
						}
					}
				}
				continue
			case *ssa.Go:
				v = x.Call.Value
				if f, ok := v.(*ssa.Function); ok && f == an {
					used = true
				}
				continue
			}
			for _, op := range ins.Operands(nil) {
				if op != nil && *op == ssa.Value(an) {
					used = true
					onlyGo = false
				}
			}
		}
	}
	return used && onlyGo
}
